#!/usr/bin/env python3
"""tools/recheck_seed.py <seed id> [properties...]
Apply /verif/seeded/<id>/patch.diff to /repo, run the quick checks of the given properties (default:
the ones recorded in meta.json), undo the change, and rewrite the "checks_run" entry of meta.json."""
import json, subprocess, sys, os
sid = sys.argv[1]
d = f'/verif/seeded/{sid}'
meta = json.load(open(f'{d}/meta.json'))
props = sys.argv[2:] or [c['property'] for c in meta.get('checks_run', [])]
assert subprocess.run(['git', '-C', '/repo', 'status', '--porcelain'], capture_output=True, text=True).stdout.strip() == '', '/repo not clean'
subprocess.run(['git', '-C', '/repo', 'apply', f'{d}/patch.diff'], check=True)
res = []
try:
    for p in props:
        r = subprocess.run(['./check', p, 'quick'], cwd='/verif', capture_output=True, text=True)
        sigs = [l.strip() for l in r.stdout.splitlines() if 'signature=' in l][:3]
        res.append({'property': p, 'exit': r.returncode, 'signatures': ';'.join(sigs)})
        print(f'{sid} check {p}: exit {r.returncode} ' + ';'.join(s.split(" first-case")[0] for s in sigs))
finally:
    subprocess.run(['git', '-C', '/repo', 'checkout', '--', '.'], check=True)
meta['checks_run'] = res
json.dump(meta, open(f'{d}/meta.json', 'w'), indent=1)
