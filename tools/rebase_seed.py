#!/usr/bin/env python3
"""tools/rebase_seed.py <seed id> <rebased patch> <scratch worktree>
A seeded change whose patch no longer applies to /repo (a later fix: commit touched the same lines) is
re-expressed against the current tree: the old patch is kept as patch.at-<commit>.diff, the new one becomes
patch.diff, and the confirmation (builds, repository suite passes, demonstration fails with / passes
without) is repeated in the scratch worktree and recorded in meta.json."""
import json, os, shutil, subprocess, sys
sid, new, wt = sys.argv[1:4]
d = f'/verif/seeded/{sid}'
env = dict(os.environ, CARGO_NET_OFFLINE='true', CARGO_TARGET_DIR=f'{wt}/target')
def run(*a, **k):
    return subprocess.run(list(a), cwd=wt, env=env, capture_output=True, text=True, **k)
run('git', 'checkout', '-q', '--detach', 'main'); run('git', 'reset', '-q', '--hard')
shutil.copy('/repo/Cargo.lock', wt)
assert run('git', 'apply', new).returncode == 0, 'rebased patch does not apply'
feat = ['--features', 'tracing'] if 'C20-' in sid else []
b1 = run('cargo', 'build', '--offline'); b2 = run('cargo', 'build', '--offline', '--features', 'tracing')
t = run('cargo', 'test', '--offline', '--no-fail-fast')
p = sum(int(l.split()[3]) for l in t.stdout.splitlines() if l.startswith('test result')); f = sum(int(l.split()[5]) for l in t.stdout.splitlines() if l.startswith('test result'))
shutil.copy(f'{d}/demo.rs', f'{wt}/tests/zz_demo.rs')
w = [l for l in run('cargo', 'test', '--offline', *feat, '--test', 'zz_demo').stdout.splitlines() if 'test result' in l][-1:]
run('git', 'checkout', '-q', '--', 'src')
wo = [l for l in run('cargo', 'test', '--offline', *feat, '--test', 'zz_demo').stdout.splitlines() if 'test result' in l][-1:]
os.remove(f'{wt}/tests/zz_demo.rs'); run('git', 'reset', '-q', '--hard')
ok = b1.returncode == 0 and b2.returncode == 0 and f == 0 and p >= 61 and w and 'FAILED' in w[0] and wo and 'ok.' in wo[0]
print(sid, 'suite', p, f, 'demo with:', w, 'without:', wo, 'CONFIRMED' if ok else 'NOT CONFIRMED')
if ok:
    head = subprocess.run(['git', '-C', '/repo', 'rev-parse', '--short', 'HEAD'], capture_output=True, text=True).stdout.strip()
    if not any(x.startswith('patch.at-') for x in os.listdir(d)):
        shutil.copy(f'{d}/patch.diff', f'{d}/patch.at-1958b96.diff')
    shutil.copy(new, f'{d}/patch.diff')
    m = json.load(open(f'{d}/meta.json'))
    m['rebased'] = {'onto': head, 'why': 'fix commits b02e896 / 5d1c7d1 changed the lines the original patch touches; same change re-expressed (original kept as patch.at-1958b96.diff)',
                    'repo_suite_with_change': f'{p} passed {f} failed', 'demo_with_change': w[0].strip(), 'demo_without_change': wo[0].strip()}
    json.dump(m, open(f'{d}/meta.json', 'w'), indent=1)
