#!/usr/bin/env python3
"""Automatic syntactic mutation campaign (a breadth complement to the hand-written seeded changes).

  tools/mutate.py gen                 list mutation sites -> /tmp/mut/mutants.json
  tools/mutate.py stage1 <worker> <n> for mutants i with i % n == worker: apply in a scratch worktree,
                                      build, run the repository's test suite; survivors (compile + all
                                      tests pass) are written to /tmp/mut/survivors/<id>.diff
  tools/mutate.py stage2              for every survivor: apply to /repo, run every quick check, undo;
                                      one line per survivor -> /tmp/mut/stage2.log

Mutation operators (applied to code lines outside comments, tracing macros and the hook module):
  del-call     delete one `call!(..);` statement (a message send)
  del-store    delete one `.store(..);` statement
  flip-bool    .store(true -> .store(false and vice versa
  relop        == <-> !=, < -> <=, <= -> <
  off-by-one   `+ 1` -> `+ 0`, `- 1` -> `- 0`
  del-return   delete a `return;`
  del-break    delete a `break;`
  and-or       && <-> ||
"""
import json, os, re, subprocess, sys, random

SRC = ['merge', 'concat', 'combine', 'flatten', 'share', 'take', 'skip', 'filter', 'map', 'scan', 'from_iter', 'for_each', 'interval']
MUT = '/tmp/mut'


def code_lines(path):
    out = []
    for i, l in enumerate(open(path).read().split('\n')):
        s = l.strip()
        if s.startswith('//') or 'trace!(' in s or 'instrument!(' in s or 'cfg(feature = "tracing")' in s or s.startswith('#['):
            continue
        out.append((i, l))
    return out


def gen():
    muts = []
    for f in SRC:
        path = f'/repo/src/{f}.rs'
        text = open(path).read().split('\n')
        # only the body of the main function (skip docs above)
        start = next(i for i, l in enumerate(text) if l.startswith('pub fn ') or l.startswith('macro_rules! combine_impls'))
        lines = [(i, l) for i, l in code_lines(path) if i >= start]
        for i, l in lines:
            s = l.strip()
            if s.startswith('call!('):
                # find the end of the statement by paren counting
                depth = 0
                j = i
                while True:
                    depth += text[j].count('(') - text[j].count(')')
                    if depth <= 0 and text[j].rstrip().endswith(';'):
                        break
                    j += 1
                    if j - i > 40:
                        break
                if j - i <= 40:
                    muts.append({'file': f, 'line': i, 'end': j, 'op': 'del-call', 'desc': ' '.join(x.strip() for x in text[i:j + 1])[:110]})
            if re.search(r'\.store\((true|false)', l):
                new = l.replace('.store(true', '.store(FALSE_TMP').replace('.store(false', '.store(true').replace('.store(FALSE_TMP', '.store(false')
                muts.append({'file': f, 'line': i, 'op': 'flip-bool', 'new': new, 'desc': s[:110]})
            if re.search(r'\.store\(.*\);\s*$', l) and l.count('(') == l.count(')'):
                muts.append({'file': f, 'line': i, 'end': i, 'op': 'del-store', 'desc': s[:110]})
            for a, b in [(' == ', ' != '), (' != ', ' == '), (' < ', ' <= '), (' <= ', ' < '), (' && ', ' || '), (' || ', ' && ')]:
                if a in l and '=>' not in l and 'let ' not in l.split(a)[0][-4:] and not s.startswith('fn ') and '->' not in l:
                    # avoid generics: require the line to look like a condition
                    if 'if ' in l or 'while ' in l or s.startswith('&&') or s.startswith('||') or '{' in l:
                        muts.append({'file': f, 'line': i, 'op': 'relop' if a.strip() in ('==', '!=', '<', '<=') else 'and-or', 'new': l.replace(a, b, 1), 'desc': s[:110]})
            if re.search(r'\) \+ 1;|\) - 1;|\)\s*$', l) and (' + 1' in l or ' - 1' in l):
                new = l.replace(' + 1', ' + 0', 1) if ' + 1' in l else l.replace(' - 1', ' - 0', 1)
                muts.append({'file': f, 'line': i, 'op': 'off-by-one', 'new': new, 'desc': s[:110]})
            elif s in ('- 1;', '+ 1;'):
                muts.append({'file': f, 'line': i, 'op': 'off-by-one', 'new': l.replace('1;', '0;'), 'desc': s})
            if s == 'return;':
                muts.append({'file': f, 'line': i, 'end': i, 'op': 'del-return', 'desc': s})
            if s == 'break;':
                muts.append({'file': f, 'line': i, 'end': i, 'op': 'del-break', 'desc': s})
    for k, m in enumerate(muts):
        m['id'] = f"m{k:04d}-{m['file']}-{m['op']}-L{m['line'] + 1}"
    os.makedirs(MUT, exist_ok=True)
    json.dump(muts, open(f'{MUT}/mutants.json', 'w'), indent=1)
    by = {}
    for m in muts:
        by[m['op']] = by.get(m['op'], 0) + 1
    print(len(muts), 'mutants', by)


def apply(m, root):
    path = f"{root}/src/{m['file']}.rs"
    text = open(path).read().split('\n')
    if 'new' in m:
        text[m['line']] = m['new']
    else:
        # deletion: replace the statement by nothing (keep line count stable with a comment)
        for j in range(m['line'], m['end'] + 1):
            text[j] = ''
        text[m['line']] = '// (statement deleted)'
    open(path, 'w').write('\n'.join(text))


def stage1(worker, n):
    muts = json.load(open(f'{MUT}/mutants.json'))
    wt = f'{MUT}/wt{worker}'
    if not os.path.isdir(wt):
        subprocess.run(['git', '-C', '/repo', 'worktree', 'add', '-q', '--detach', wt, 'main'], check=True)
        subprocess.run(['cp', '/repo/Cargo.lock', wt])
    env = dict(os.environ, CARGO_NET_OFFLINE='true', CARGO_TARGET_DIR=f'{wt}/target')
    os.makedirs(f'{MUT}/survivors', exist_ok=True)
    log = open(f'{MUT}/stage1_{worker}.log', 'a')
    for k, m in enumerate(muts):
        if k % n != worker:
            continue
        subprocess.run(['git', '-C', wt, 'checkout', '-q', '--', '.'])
        apply(m, wt)
        b = subprocess.run(['cargo', 'build', '--offline', '--features', 'tracing'], cwd=wt, env=env, capture_output=True, text=True)
        if b.returncode != 0:
            print(m['id'], 'does-not-compile', file=log, flush=True)
            continue
        try:
            t = subprocess.run(['cargo', 'test', '--offline', '--no-fail-fast'], cwd=wt, env=env, capture_output=True, text=True, timeout=600)
        except subprocess.TimeoutExpired:
            # a mutant that makes a test hang (an interval that never stops): the suite does not pass
            subprocess.run(['pkill', '-f', f'{wt}/target/debug/deps/'])
            print(m['id'], 'killed-by-the-test-suite (a test hangs)', file=log, flush=True)
            continue
        passed = sum(int(x.split()[3]) for x in t.stdout.split('\n') if x.startswith('test result'))
        failed = sum(int(x.split()[5]) for x in t.stdout.split('\n') if x.startswith('test result'))
        if t.returncode == 0 and failed == 0 and passed >= 61:
            d = subprocess.run(['git', '-C', wt, 'diff', '--', 'src'], capture_output=True, text=True).stdout
            open(f"{MUT}/survivors/{m['id']}.diff", 'w').write(d)
            print(m['id'], 'SURVIVES-the-test-suite', m['desc'], file=log, flush=True)
        else:
            print(m['id'], f'killed-by-the-test-suite ({failed} failed)', file=log, flush=True)
    subprocess.run(['git', '-C', wt, 'checkout', '-q', '--', '.'])


def stage2():
    props = ['C01', 'C02', 'C03', 'C04', 'C05', 'C06', 'C07', 'C08', 'C09', 'C10', 'C11', 'C12', 'C13', 'C14', 'C15', 'C16', 'C17', 'C18', 'C19']
    surv = sorted(os.listdir(f'{MUT}/survivors'))
    done = set()
    if os.path.exists(f'{MUT}/stage2.log'):
        done = {l.split()[0] for l in open(f'{MUT}/stage2.log')}
    log = open(f'{MUT}/stage2.log', 'a')
    for s in surv:
        sid = s[:-5]
        if sid in done:
            continue
        f = sid.split('-')[1]
        assert subprocess.run(['git', '-C', '/repo', 'status', '--porcelain'], capture_output=True, text=True).stdout.strip() == ''
        if subprocess.run(['git', '-C', '/repo', 'apply', f'{MUT}/survivors/{s}']).returncode != 0:
            # the tree moved on since stage 1 (a fix: commit next to the mutated line): 3-way
            subprocess.run(['git', '-C', '/repo', 'apply', '-3', f'{MUT}/survivors/{s}'], check=True)
            subprocess.run(['git', '-C', '/repo', 'reset', '-q'])
        caught = []
        try:
            # cheap ones first; stop at the first three that catch it
            order = [p for p in props if not (p in ('C18', 'C19') and f not in ('merge', 'combine', 'take'))]
            if f != 'interval':
                order = [p for p in order if p != 'C16']
            for p in order:
                r = subprocess.run(['./check', p, 'quick'], cwd='/verif', capture_output=True, text=True)
                if r.returncode == 1:
                    sig = next((l.strip().split(' occurrences')[0].replace('signature=', '') for l in r.stdout.split('\n') if 'signature=' in l), '')
                    caught.append(f'{p}({sig})')
                    if len(caught) >= 3:
                        break
                elif r.returncode == 2:
                    caught.append(f'{p}(INCONCLUSIVE)')
        finally:
            subprocess.run(['git', '-C', '/repo', 'checkout', '--', '.'], check=True)
        print(sid, 'CAUGHT' if any('INCONCLUSIVE' not in c for c in caught) else 'NOT-CAUGHT', ' '.join(caught), file=log, flush=True)


if __name__ == '__main__':
    if sys.argv[1] == 'gen':
        gen()
    elif sys.argv[1] == 'stage1':
        stage1(int(sys.argv[2]), int(sys.argv[3]))
    elif sys.argv[1] == 'stage2':
        stage2()
