#!/usr/bin/env python3
"""Generate /verif/seeded/INDEX.md from seeded/*/meta.json."""
import json, glob, os
rows = []
for m in sorted(glob.glob('/verif/seeded/*/meta.json')):
    d = json.load(open(m))
    sid = d['seed']
    notes = ''
    np = os.path.join(os.path.dirname(m), 'notes.md')
    checks = []
    for c in d.get('checks_run', []):
        sig = c['signatures'].split(' occurrences')[0].replace('signature=', '') if c['signatures'] else ''
        checks.append(f"{c['property']}: {'CAUGHT' if c['exit']==1 else ('missed' if c['exit']==0 else 'inconclusive')}" + (f" ({sig})" if sig else ''))
    conf = d.get('confirmed', {})
    rows.append((sid, d.get('breaks_property', ''), conf.get('repo_suite_with_change', ''), conf.get('demo_with_change', '').replace('test result: ', '')[:40], conf.get('demo_without_change', '').replace('test result: ', '')[:30], '; '.join(checks)))
with open('/verif/seeded/INDEX.md', 'w') as f:
    f.write('# Seeded changes\n\nEach directory holds patch.diff (against /repo main), demo.rs (fails with the change, passes without), notes.md (author\'s description) and meta.json (what was confirmed and which quick checks were run with the change applied to /repo).\n\n')
    f.write('| seed | aimed at | repository suite with change | demo with change | demo without | quick checks with the change applied |\n|---|---|---|---|---|---|\n')
    for r in rows:
        f.write('| ' + ' | '.join(r) + ' |\n')
print(len(rows), 'seeds')
