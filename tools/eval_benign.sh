#!/bin/bash
# tools/eval_benign.sh <id> <dir with patch.diff + notes.md>
# A change that is meant to PRESERVE every property: confirm that it builds and passes the repository's
# tests (in /repo itself, then undone), run every quick check with it applied, and record which (if any)
# raised an alarm. An alarm is then either a property the change does break after all, or a false alarm
# of the check - to be decided by reading the replayed case.
set -u
ID="$1"; SUB="$2"
[ -z "$(git -C /repo status --porcelain)" ] || { echo "/repo not clean"; exit 2; }
git -C /repo apply "$SUB/patch.diff" || { echo "patch does not apply"; exit 3; }
export CARGO_NET_OFFLINE=true
suite=$(cd /repo && cargo test --offline --no-fail-fast 2>&1 | grep "test result" | awk '{p+=$4; f+=$6} END {print p" passed "f" failed"}')
b2=$(cd /repo && cargo build --offline --features tracing 2>&1 | tail -1)
echo "$ID suite: $suite; tracing build: $b2"
res=""
cd /verif
for pr in C01 C02 C03 C04 C05 C06 C07 C08 C09 C10 C11 C12 C13 C14 C15 C16 C17 C18 C19 C20; do
  out=$(./check $pr quick 2>&1); rc=$?
  if [ $rc -ne 0 ]; then
    sig=$(echo "$out" | grep -m3 "signature=\|INCONCLUSIVE" | sed 's/^ *//' | cut -c1-200 | tr '\n' ';' | sed 's/"/\\"/g')
    echo "  $ID $pr: exit $rc $sig"
    res="$res{\"property\":\"$pr\",\"exit\":$rc,\"signatures\":\"$sig\"},"
  fi
done
git -C /repo checkout -q -- .
mkdir -p /verif/seeded-benign/$ID
cp "$SUB/patch.diff" /verif/seeded-benign/$ID/; [ -f "$SUB/notes.md" ] && cp "$SUB/notes.md" /verif/seeded-benign/$ID/
cat > /verif/seeded-benign/$ID/meta.json <<EOM
{"id":"$ID","kind":"behaviour-preserving change (must NOT be reported)",
 "repo_suite_with_change":"$suite","tracing_build":"$(echo $b2 | sed 's/"/\\"/g')",
 "alarms":[${res%,}],
 "how_run":"tools/eval_benign.sh: git -C /repo apply; cargo test; ./check <every property> quick; git -C /repo checkout -- ."}
EOM
echo "$ID done: alarms: ${res:-none}"
