#!/bin/bash
# tools/eval_seed.sh <worktree dir> <subdir with patch.diff + demo.rs> <seed id> <property> [more properties...]
# 1. confirms in the scratch worktree that the change compiles, passes the repository's test
#    suite and that the demonstration fails with it and passes without it;
# 2. applies it to /repo, runs the quick checks of the given properties, and undoes it;
# 3. stores patch, demonstration and meta.json under /verif/seeded/<seed id>/.
set -u
WT="$1"; SUB="$2"; SID="$3"; shift 3; PROPS="$@"
P="$SUB/patch.diff"; D="$SUB/demo.rs"
export CARGO_NET_OFFLINE=true CARGO_TARGET_DIR="$WT/target"
cd "$WT" || exit 2
git checkout -q -- . ; git checkout -q --detach main 2>/dev/null; cp /repo/Cargo.lock . 2>/dev/null
rm -f tests/zz_demo.rs
ok=1
if ! git apply --check "$P" 2>/dev/null; then echo "PATCH DOES NOT APPLY to current main"; exit 3; fi
git apply "$P"
b1=$(cargo build --offline 2>&1 | tail -1); b2=$(cargo build --offline --features tracing 2>&1 | tail -1)
echo "build default: $b1"; echo "build tracing: $b2"
suite=$(cargo test --offline --no-fail-fast 2>&1 | grep "test result" | awk '{p+=$4; f+=$6} END {print p" passed "f" failed"}')
echo "suite with change: $suite"
cp "$D" tests/zz_demo.rs
# seeds aimed at C20 only show with the tracing feature on
DF=""; case "$SID" in *C20-*) DF="--features tracing";; esac
with=$(cargo test --offline $DF --test zz_demo 2>&1 | grep "test result" | tail -1)
echo "demo with change: $with"
git checkout -q -- src
without=$(cargo test --offline $DF --test zz_demo 2>&1 | grep "test result" | tail -1)
echo "demo without change: $without"
rm -f tests/zz_demo.rs
# now the checks against /repo (CONFIRM_ONLY=1: leave them to tools/recheck_seed.py, so that
# confirmations of several seeds can run in parallel while /repo stays untouched)
cd /verif
res=""
if [ -z "${CONFIRM_ONLY:-}" ]; then
git -C /repo apply "$P" || { echo "cannot apply to /repo"; exit 3; }
for pr in $PROPS; do
  out=$(./check $pr quick 2>&1); rc=$?
  sig=$(echo "$out" | grep -m3 "signature=" | sed 's/^ *//' | tr '\n' ';')
  echo "check $pr: exit $rc $sig"
  res="$res{\"property\":\"$pr\",\"exit\":$rc,\"signatures\":\"$(echo $sig | sed 's/"/\\"/g')\"},"
done
git -C /repo checkout -q -- .
else
for pr in $PROPS; do res="$res{\"property\":\"$pr\",\"exit\":-1,\"signatures\":\"\"},"; done
fi
mkdir -p /verif/seeded/$SID
cp "$P" /verif/seeded/$SID/patch.diff; cp "$D" /verif/seeded/$SID/demo.rs
[ -f "$SUB/notes.md" ] && cp "$SUB/notes.md" /verif/seeded/$SID/notes.md
cat > /verif/seeded/$SID/meta.json <<EOM
{"seed":"$SID","breaks_property":"$(echo $PROPS | cut -d' ' -f1)",
 "confirmed":{"build_default":"$b1","build_tracing":"$b2","repo_suite_with_change":"$suite","demo_with_change":"$(echo $with)","demo_without_change":"$(echo $without)"},
 "checks_run":[${res%,}],
 "how_run":"tools/eval_seed.sh: git apply in a scratch worktree (build, cargo test, demo with/without), then git -C /repo apply; ./check <prop> quick; git -C /repo checkout -- ."}
EOM
echo "saved /verif/seeded/$SID"
