#!/usr/bin/env python3
"""tools/seed_sweep.py <VERIF_SEED> : for every seeded change, apply it to /repo, run the quick check of the
property it aims at (and of the first neighbouring property that caught it) with the given VERIF_SEED,
undo it, and print one line. Does not modify any meta.json."""
import json, subprocess, sys, glob, os
seed = sys.argv[1]
env = dict(os.environ, VERIF_SEED=seed)
rows = []
for m in sorted(glob.glob('/verif/seeded/*/meta.json')):
    d = json.load(open(m)); sid = d['seed']
    caught = [c['property'] for c in d['checks_run'] if c['exit'] == 1]
    if not caught:
        continue
    if 'applies_to' in d:
        print(f'seed={seed} {sid} skipped: applies to {d["applies_to"]["commit"]} only', flush=True)
        continue
    aimed = d['breaks_property']
    props = [aimed] if aimed in caught else [caught[0]]
    assert subprocess.run(['git', '-C', '/repo', 'status', '--porcelain'], capture_output=True, text=True).stdout.strip() == ''
    subprocess.run(['git', '-C', '/repo', 'apply', f'/verif/seeded/{sid}/patch.diff'], check=True)
    try:
        for p in props:
            r = subprocess.run(['./check', p, 'quick'], cwd='/verif', capture_output=True, text=True, env=env)
            n = sum(int(l.split('occurrences=')[1].split()[0]) for l in r.stdout.splitlines() if 'occurrences=' in l)
            print(f'seed={seed} {sid} {p} exit={r.returncode} occurrences={n}', flush=True)
    finally:
        subprocess.run(['git', '-C', '/repo', 'checkout', '--', '.'], check=True)
