//! Runner for engine E1 (sequential puppet/probe/tap harness).

use crate::findings::classify;
use crate::json::J;
use crate::oracles::Which;
use crate::report::{load_known, Known, Report};
use crate::rng::{Chooser, Rng};
use crate::rng::next_script;
use crate::seq::{gen_case, gen_case_sized, run_case, trigger, CaseResult, CaseSpec, ALL_OPS};
use crate::world::{abstract_hash, render};
use crate::Opts;

pub fn ops_for(prop: &str) -> Vec<&'static str> {
    match prop {
        // "tree": composed topologies in which every instance of the operator is judged with the
        // taps around it as its peers
        "C07" => vec!["map", "filter", "scan", "take", "skip", "tree"],
        "C08" => vec!["merge", "tree"],
        "C09" => vec!["concat", "tree"],
        "C10" => vec!["combine", "tree"],
        "C11" => vec!["flatten", "tree"],
        "C12" => vec!["share"],
        "C14" => vec!["from_iter", "map", "filter", "scan", "take", "skip", "concat", "flatten", "tree"],
        "C15" => vec!["from_iter"],
        _ => ALL_OPS.to_vec(),
    }
}

fn prop_num(p: &str) -> u64 {
    p.trim_start_matches('C').parse().unwrap_or(0)
}

pub fn case_rng(seed: u64, prop: &str, op_ix: usize, index: u64) -> Rng {
    Rng::from_parts(&[seed, prop_num(prop), op_ix as u64, index])
}

pub fn make_case(seed: u64, prop: &str, op: &str, index: u64) -> (CaseSpec, Chooser) {
    let (base, off) = if let Some(b) = op.strip_suffix("+huge") {
        (b, 300)
    } else if let Some(b) = op.strip_suffix("+deep") {
        (b, 100)
    } else if let Some(b) = op.strip_suffix("+wide") {
        (b, 200)
    } else {
        (op, 0)
    };
    let op_ix = ALL_OPS.iter().position(|x| *x == base).unwrap_or(0) + off;
    let mut c = Chooser::random(case_rng(seed, prop, op_ix, index));
    let spec = gen_case(&mut c, op, prop);
    (spec, c)
}

pub fn case_json(spec: &CaseSpec, r: &CaseResult) -> J {
    let g = r.built.world.lock();
    J::obj()
        .set("topology", J::s(&spec.topo.describe()))
        .set(
            "puppets",
            J::arr(spec.pspecs.iter().enumerate().map(|(i, p)| {
                J::s(&format!(
                    "P{}: {:?}{} items={} fin={:?} burst={}",
                    i,
                    p.mode,
                    if p.late { " late" } else { "" },
                    spec.lens[i],
                    p.fin,
                    p.burst
                ))
            })),
        )
        .set(
            "probes",
            J::arr(spec.probe_specs.iter().enumerate().map(|(i, p)| J::s(&format!("S{}: policy={:?} rest={:?}", i, p.policy, p.rest)))),
        )
        .set("env_steps", J::arr(r.steps.iter().map(|a| J::s(&a.show()))))
        .set("trace", J::arr(render(&g).into_iter().map(|l| J::s(&l))))
}

/// Process the outcome of one case into the report. Returns true if a violation was recorded.
pub fn digest(
    rep: &mut Report,
    prop: &str,
    op: &str,
    case_id: &str,
    spec: &CaseSpec,
    r: &CaseResult,
    known: &[Known],
    sample: bool,
) -> bool {
    rep.evaluations += 1;
    let (n_events, hash) = {
        let g = r.built.world.lock();
        (g.events.len() as u64, abstract_hash(&g))
    };
    rep.events += n_events;
    let nontrivial = trigger(prop, r);
    let e = rep.per_op.entry(op.to_string()).or_insert([0; 3]);
    e[0] += 1;
    e[2] += n_events;
    if nontrivial {
        e[1] += 1;
        rep.nontrivial_cases += 1;
        rep.nontrivial.insert(hash);
    }
    for f in &r.harness_faults {
        if rep.harness_faults.len() < 20 {
            rep.harness_faults.push(format!("{} [{}]", f, case_id));
        }
    }
    if sample && nontrivial && rep.samples.len() < 4 {
        rep.samples.push(case_json(spec, r).set("case_id", J::s(case_id)));
    }
    let mut found = false;
    // in the order of the events they are about (the online monitors and the per-step predicates
    // append to one list; a predicate's finding about an EARLIER event must not be taken for a
    // consequence of a known finding that an online monitor recorded for a later one); findings
    // without an event (end-of-run checks) keep their place at the end
    let mut ordered: Vec<&crate::world::Violation> = r.violations.iter().collect();
    ordered.sort_by_key(|v| if v.event >= 0 { v.event as i64 } else { i64::MAX });
    for v in ordered {
        let mut v = v.clone();
        {
            let g = r.built.world.lock();
            classify(&g, &mut v);
        }
        let sig = v.signature();
        if let Some(k) = known.iter().find(|k| k.signature == sig && v.props.contains(&k.property.as_str())) {
            if k.property == prop {
                let e = rep.known_hits.entry(sig.clone()).or_insert((0, k.text.clone()));
                e.0 += 1;
            }
            // whatever follows a known finding in the same execution may be its consequence
            break;
        }
        if v.props.contains(&prop) {
            let detail = format!("{} on {} (step {}): {}", v.kind, v.edge_label, v.step, v.detail);
            let replay = case_json(spec, r).set("violating_event", J::i(v.event as i64));
            rep.add_violation(prop, &sig, &detail, case_id, replay);
            found = true;
            break;
        }
    }
    found
}

pub fn run(o: &Opts, rep: &mut Report) {
    let ops: Vec<&'static str> = match &o.ops {
        Some(v) => ALL_OPS.iter().copied().filter(|x| v.iter().any(|y| y == x)).collect(),
        None => ops_for(&o.prop),
    };
    let total: u64 = o.cases.unwrap_or(if o.tier == "thorough" { 4_000_000 } else { 260_000 });
    let per_op = (total / ops.len() as u64).max(1);
    // the single-operator checks C08-C11 give a quarter of their budget to composed topologies
    let two = ops.len() == 2 && ops[1] == "tree";
    let budget = move |op: &str| -> u64 {
        if two {
            if op == "tree" {
                (total / 4).max(1)
            } else {
                (total * 3 / 4).max(1)
            }
        } else {
            per_op
        }
    };
    let known = load_known(&o.known);
    let which = Which::for_prop(&o.prop);
    let nthreads = o.threads.max(1);
    let mut reports: Vec<Report> = vec![];
    std::thread::scope(|s| {
        let mut hs = vec![];
        for t in 0..nthreads {
            let ops = ops.clone();
            let known = known.clone();
            let which = which.clone();
            let prop = o.prop.clone();
            let seed = o.seed;
            let thorough = o.tier == "thorough";
            // wide configurations nest hundreds of synchronous calls: give the workers a deep stack
            let builder = std::thread::Builder::new().stack_size(256 << 20);
            hs.push(builder.spawn_scoped(s, move || {
                let mut rep = Report::default();
                for op in ops.iter() {
                    let per_op = budget(op);
                    let mut i = t as u64;
                    while i < per_op {
                        let (spec, mut c) = make_case(seed, &prop, op, i);
                        let r = run_case(&spec, &mut c, &which);
                        let id = format!("E1:{}:{}:{}:{}", prop, seed, op, i);
                        for (k, v) in r.exercised.iter() {
                            *rep.exercised.entry(k.to_string()).or_insert(0) += *v;
                        }
                        digest(&mut rep, &prop, op, &id, &spec, &r, &known, t == 0);
                        i += nthreads as u64;
                    }
                    {
                        // larger configurations: more members, longer scripts and schedules, deeper
                        // trees (a quarter as many as normal ones in the thorough tier, a sixteenth in
                        // the quick tier)
                        let deep_op = format!("{}+deep", op);
                        let mut i = t as u64;
                        while i < per_op / if thorough { 4 } else { 16 } {
                            let (spec, mut c) = make_case(seed, &prop, &deep_op, i);
                            let r = run_case(&spec, &mut c, &which);
                            let id = format!("E1:{}:{}:{}:{}", prop, seed, deep_op, i);
                            for (k, v) in r.exercised.iter() {
                                *rep.exercised.entry(k.to_string()).or_insert(0) += *v;
                            }
                            digest(&mut rep, &prop, &deep_op, &id, &spec, &r, &known, false);
                            i += nthreads as u64;
                        }
                    }
                    if *op == "merge" && t == 0 && matches!(prop.as_str(), "C01" | "C02" | "C03" | "C04" | "C05") {
                        // one merge! of more than 65 536 members per run (four in the thorough tier):
                        // whatever counts members, greetings or completions in 16 bits wraps here
                        for i in 0..(if thorough { 4u64 } else { 1 }) {
                            let (spec, mut c) = make_case(seed, &prop, "merge+huge", i);
                            let r = run_case(&spec, &mut c, &which);
                            let id = format!("E1:{}:{}:merge+huge:{}", prop, seed, i);
                            for (k, v) in r.exercised.iter() {
                                *rep.exercised.entry(k.to_string()).or_insert(0) += *v;
                            }
                            digest(&mut rep, &prop, "merge+huge", &id, &spec, &r, &known, false);
                        }
                    }
                    if *op != "tree" {
                        // configurations beyond every small bound (see gen_case_full): a few per
                        // operator in the quick tier, some hundreds in the thorough tier
                        let wide_op = format!("{}+wide", op);
                        let n_wide = (per_op / if thorough { 64 } else { 256 }).max(nthreads as u64);
                        let mut i = t as u64;
                        while i < n_wide {
                            let (spec, mut c) = make_case(seed, &prop, &wide_op, i);
                            let r = run_case(&spec, &mut c, &which);
                            let id = format!("E1:{}:{}:{}:{}", prop, seed, wide_op, i);
                            for (k, v) in r.exercised.iter() {
                                *rep.exercised.entry(k.to_string()).or_insert(0) += *v;
                            }
                            digest(&mut rep, &prop, &wide_op, &id, &spec, &r, &known, false);
                            i += nthreads as u64;
                        }
                    }
                }
                rep
            }).expect("spawn worker"));
        }
        for h in hs {
            match h.join() {
                Ok(r) => reports.push(r),
                Err(_) => {
                    let mut r = Report::default();
                    r.harness_faults.push("worker thread panicked".into());
                    reports.push(r);
                },
            }
        }
    });
    for r in reports {
        rep.merge(r);
    }
}

/// Small-scope enumeration: for sampled tiny configurations, execute *every* driver schedule
/// (every sequence of enabled env steps, including the final greeting/drain phase) against the
/// real crate and judge each execution with the same monitors.
pub fn run_enum(o: &Opts, rep: &mut Report) {
    let ops: Vec<&'static str> = match &o.ops {
        Some(v) => ALL_OPS.iter().copied().filter(|x| v.iter().any(|y| y == x)).collect(),
        None => ops_for(&o.prop),
    };
    let thorough = o.tier == "thorough";
    let specs_per_op: u64 = if thorough { 600 } else { 24 };
    let cap: u64 = if thorough { 20_000 } else { 1_500 };
    let known = load_known(&o.known);
    let which = Which::for_prop(&o.prop);
    let nthreads = o.threads.max(1);
    let mut reports: Vec<Report> = vec![];
    std::thread::scope(|s| {
        let mut hs = vec![];
        for t in 0..nthreads {
            let ops = ops.clone();
            let known = known.clone();
            let which = which.clone();
            let prop = o.prop.clone();
            let seed = o.seed;
            hs.push(s.spawn(move || {
                let mut rep = Report::default();
                for op in ops.iter() {
                    let op_ix = ALL_OPS.iter().position(|x| x == op).unwrap_or(0);
                    let mut i = t as u64;
                    while i < specs_per_op {
                        let mut gc = Chooser::random(Rng::from_parts(&[seed, prop_num(&prop), 0xE1E, op_ix as u64, i]));
                        let spec = gen_case_sized(&mut gc, op, &prop, true);
                        let mut script: Option<Vec<usize>> = Some(vec![]);
                        let mut n = 0u64;
                        let mut complete = false;
                        while let Some(sc) = script.take() {
                            let mut c = Chooser::scripted(sc.clone());
                            let r = run_case(&spec, &mut c, &which);
                            let id = format!(
                                "E1e:{}:{}:{}:{}:{}",
                                prop,
                                seed,
                                op,
                                i,
                                sc.iter().map(|x| x.to_string()).collect::<Vec<_>>().join(".")
                            );
                            for (k, v) in r.exercised.iter() {
                                *rep.exercised.entry(k.to_string()).or_insert(0) += *v;
                            }
                            digest(&mut rep, &prop, op, &id, &spec, &r, &known, false);
                            n += 1;
                            script = next_script(&c.trail);
                            if script.is_none() {
                                complete = true;
                            }
                            if n >= cap {
                                break;
                            }
                        }
                        *rep.enumerated.entry(format!("{}: schedules executed", op)).or_insert(0) += n;
                        *rep.enumerated.entry(format!("{}: configurations", op)).or_insert(0) += 1;
                        if complete {
                            *rep.enumerated.entry(format!("{}: configurations with every schedule executed", op)).or_insert(0) += 1;
                        }
                        i += nthreads as u64;
                    }
                }
                rep
            }));
        }
        for h in hs {
            match h.join() {
                Ok(r) => reports.push(r),
                Err(_) => {
                    let mut r = Report::default();
                    r.harness_faults.push("worker thread panicked".into());
                    reports.push(r);
                },
            }
        }
    });
    for r in reports {
        rep.merge(r);
    }
}

pub fn replay(o: &Opts, parts: &[&str]) -> i32 {
    if parts[0] == "E1e" && parts.len() >= 6 {
        // E1e:<prop>:<seed>:<op>:<spec index>:<script>
        let prop = parts[1];
        let seed: u64 = parts[2].parse().unwrap_or(1);
        let op = parts[3];
        let i: u64 = parts[4].parse().unwrap_or(0);
        let script: Vec<usize> = parts[5].split('.').filter(|s| !s.is_empty()).filter_map(|s| s.parse().ok()).collect();
        let op_ix = ALL_OPS.iter().position(|x| *x == op).unwrap_or(0);
        let mut gc = Chooser::random(Rng::from_parts(&[seed, prop_num(prop), 0xE1E, op_ix as u64, i]));
        let spec = gen_case_sized(&mut gc, op, prop, true);
        let mut c = Chooser::scripted(script);
        let which = Which::for_prop(prop);
        let r = run_case(&spec, &mut c, &which);
        println!("{}", case_json(&spec, &r).pretty());
        let known = load_known(&o.known);
        let mut rep = Report::default();
        let found = digest(&mut rep, prop, op, &parts.join(":"), &spec, &r, &known, false);
        for v in &r.violations {
            println!("violation: {:?} {} culprit={} edge={} step={} {}", v.props, v.kind, v.culprit, v.edge_label, v.step, v.detail);
        }
        return if found { 1 } else { 0 };
    }
    // E1:<prop>:<seed>:<op>:<index>
    if parts.len() < 5 {
        eprintln!("malformed case id");
        return 2;
    }
    let prop = parts[1];
    let seed: u64 = parts[2].parse().unwrap_or(1);
    let op = parts[3];
    let index: u64 = parts[4].parse().unwrap_or(0);
    let (spec, mut c) = make_case(seed, prop, op, index);
    let which = Which::for_prop(prop);
    let r = run_case(&spec, &mut c, &which);
    println!("{}", case_json(&spec, &r).pretty());
    let known = load_known(&o.known);
    let mut rep = Report::default();
    let found = digest(&mut rep, prop, op, &parts.join(":"), &spec, &r, &known, false);
    for v in &r.violations {
        println!("violation: {:?} {} culprit={} edge={} step={} {}", v.props, v.kind, v.culprit, v.edge_label, v.step, v.detail);
    }
    if found {
        1
    } else {
        0
    }
}

// ---------------------------------------------------------------------------------------------
// Directed witnesses of the known findings: fixed scenarios executed by every run of the owning
// checks, so that the KNOWN-FINDING line does not depend on the luck of a seed.
// ---------------------------------------------------------------------------------------------

use crate::probe::{ProbeSpec, React};
use crate::puppet::{Fin, Mode, PuppetSpec};
use crate::seq::{run_case_with, Act};
use crate::topo::Topo;

pub struct Witness {
    pub name: &'static str,
    pub prop: &'static str,
    pub spec: CaseSpec,
    pub acts: Vec<Act>,
}

fn pspec(mode: Mode, fin: Fin) -> PuppetSpec {
    PuppetSpec { mode, late: false, fin, burst: 0, eager_end: false, per_pull: 1, on_stop: None, on_stop2: None, feedback: None, on_pull: None, backlog: false }
}

fn base_spec(topo: Topo, pspecs: Vec<PuppetSpec>, lens: Vec<usize>, probe_specs: Vec<ProbeSpec>) -> CaseSpec {
    CaseSpec { topo, pspecs, lens, probe_specs, max_steps: 0, drain: false, credit_env: false, extra_credit: 0, weights: [1, 1, 1, 1, 1, 1] }
}

pub fn witnesses() -> Vec<Witness> {
    vec![
        Witness {
            name: "D1 combine swallows a member error",
            prop: "C05",
            spec: base_spec(
                Topo::Combine(2),
                vec![pspec(Mode::Listen, Fin::Err), pspec(Mode::Listen, Fin::Never)],
                vec![1, 1],
                vec![ProbeSpec::passive()],
            ),
            acts: vec![Act::PuppetStep(0, 0), Act::PuppetStep(1, 0), Act::PuppetStep(0, 0)],
        },
        Witness {
            name: "D2 combine turns the error of the last member to end into a completion",
            prop: "C05",
            spec: base_spec(
                Topo::Combine(2),
                vec![pspec(Mode::Listen, Fin::Err), pspec(Mode::Listen, Fin::End)],
                vec![1, 1],
                vec![ProbeSpec::passive()],
            ),
            acts: vec![
                Act::PuppetStep(1, 0),
                Act::PuppetStep(1, 0),
                Act::PuppetStep(0, 0),
                Act::PuppetStep(0, 0),
            ],
        },
        Witness {
            name: "K1a share: stale outer fan-out after Terminate",
            prop: "C02",
            spec: base_spec(
                Topo::Share(2),
                vec![pspec(Mode::PullSync, Fin::End)],
                vec![2],
                vec![ProbeSpec { policy: vec![React::Nothing], rest: React::Pull, pull_cap: 1000, attach: None, poke: None, feed: None, only_attached: false, late_pulls: false, drop_talkback: false, late_pull_nested: false }, ProbeSpec::passive()],
            ),
            acts: vec![Act::Subscribe(1), Act::ProbeAct(1, React::Pull)],
        },
        Witness {
            name: "K1b share: stale outer fan-out after the sink disposed",
            prop: "C03",
            spec: base_spec(
                Topo::Share(2),
                vec![pspec(Mode::PullSync, Fin::End)],
                vec![3],
                vec![
                    ProbeSpec { policy: vec![React::Nothing, React::Pull, React::Nothing], rest: React::Nothing, pull_cap: 1000, attach: None, poke: None, feed: None, only_attached: false, late_pulls: false, drop_talkback: false, late_pull_nested: false },
                    ProbeSpec { policy: vec![React::Nothing, React::Terminate], rest: React::Nothing, pull_cap: 1000, attach: None, poke: None, feed: None, only_attached: false, late_pulls: false, drop_talkback: false, late_pull_nested: false },
                ],
            ),
            acts: vec![Act::Subscribe(1), Act::ProbeAct(1, React::Pull)],
        },
        Witness {
            name: "K3a flatten: the stop of the inner makes the outer emit; the new inner is subscribed, pulled and relayed after the sink disposed",
            prop: "C03",
            spec: k3_spec(),
            acts: vec![Act::PuppetStep(0, 0)],
        },
        Witness {
            name: "K3b flatten: the stop of the inner makes the outer emit; the old inner is stopped twice and a new one subscribed after the output is over",
            prop: "C04",
            spec: k3_spec(),
            acts: vec![Act::PuppetStep(0, 0)],
        },
    ]
}

/// flatten(outer: listenable, 2 inners; inner 1 answers Pulls synchronously and, when it is told
/// to stop, makes the outer emit its next inner); the sink disposes inside its first datum
fn k3_spec() -> CaseSpec {
    let mut inner1 = pspec(Mode::PullSync, Fin::End);
    inner1.on_stop = Some((1, 0));
    base_spec(
        Topo::Flatten(2),
        vec![pspec(Mode::Listen, Fin::End), inner1, pspec(Mode::PullSync, Fin::End)],
        vec![2, 2, 2],
        vec![ProbeSpec { policy: vec![React::Nothing, React::Terminate], rest: React::Nothing, pull_cap: 1000, attach: None, poke: None, feed: None, only_attached: false, late_pulls: false, drop_talkback: false, late_pull_nested: false }],
    )
}

/// Run the directed witnesses that belong to `prop`; record which ones still reproduce.
pub fn run_witnesses(o: &Opts, rep: &mut Report) {
    let known = load_known(&o.known);
    let which = Which::for_prop(&o.prop);
    let mut status = vec![];
    for w in witnesses() {
        if w.prop != o.prop {
            continue;
        }
        let mut c = Chooser::scripted(vec![]);
        let r = run_case_with(&w.spec, &mut c, &which, Some(&w.acts));
        let before = rep.known_hits.values().map(|v| v.0).sum::<u64>();
        let id = format!("E1w:{}:{}", o.prop, w.name);
        let vio = digest(rep, &o.prop, &w.spec.topo.op_name(), &id, &w.spec, &r, &known, false);
        let after = rep.known_hits.values().map(|v| v.0).sum::<u64>();
        let outcome = if after > before {
            "reproduced (matches an open known finding)"
        } else if vio {
            "violates, but not listed as known"
        } else {
            "finding not reproduced"
        };
        status.push(J::obj().set("witness", J::s(w.name)).set("outcome", J::s(outcome)));
    }
    if !status.is_empty() {
        rep.extra.push(("known_finding_witnesses".into(), J::Arr(status)));
    }
}
