//! Scripted, self-checking sources ("puppets") that drive an operator from above.

use crate::world::{Dir, EdgeId, Kind, Role, Val, World};
use callbag::{Message, Sink, Source};
use never::Never;
use std::sync::{Arc, Mutex};

#[derive(Clone, Copy, Debug, PartialEq, Eq, Hash)]
pub enum Mode {
    /// emits when the driver steps it; ignores Pull
    Listen,
    /// answers each Pull inside the Pull call
    PullSync,
    /// records demand; the driver delivers one answer per recorded Pull later
    PullDeferred,
}

#[derive(Clone, Copy, Debug, PartialEq, Eq, Hash)]
pub enum Fin {
    End,
    Err,
    /// never ends by itself (Listen only)
    Never,
}

#[derive(Clone, Debug)]
pub struct PuppetSpec {
    pub mode: Mode,
    /// greets only when the driver says so (merge members only)
    pub late: bool,
    pub fin: Fin,
    /// number of script items (data, then the terminal) a Listen puppet emits inside its greeting
    pub burst: usize,
    /// the terminal follows the last datum in the same call (a source that knows it is exhausted,
    /// like take's output) instead of waiting for the next Pull / driver step
    pub eager_end: bool,
    /// PullSync only: number of script items sent in answer to one Pull (1, or 2 for a source
    /// that answers every request with a small batch)
    pub per_pull: usize,
    /// a source that reacts to being told to stop (merge / combine members only): inside that
    /// call, (0, j) the late sibling j greets, (1, j) the listenable sibling j emits its next item
    pub on_stop: Option<(u8, usize)>,
    /// a second reaction of the same kind, performed right after the first one
    pub on_stop2: Option<(u8, usize)>,
    /// for_each cases only: when the callback `f` is handed this puppet's k-th datum (0-based) it
    /// makes the (listenable) puppet emit its next script item from inside `f` - a subject that is
    /// fed, completed or failed by the very callback that consumes it
    pub feedback: Option<usize>,
    /// a source that reacts to its first Pull (merge members only): inside that call the late
    /// sibling j greets - two members backed by one lazily opened connection
    pub on_pull: Option<usize>,
    /// PullDeferred only: a source that was busy and then catches up - at its first driver step it
    /// serves everything it owes in a loop, and from then on it serves what it owes from inside
    /// every Pull it receives (also a Pull that arrives while it is serving)
    pub backlog: bool,
}

#[derive(Debug)]
pub struct PuppetError(pub usize, pub usize);
impl std::fmt::Display for PuppetError {
    fn fmt(&self, f: &mut std::fmt::Formatter<'_>) -> std::fmt::Result {
        write!(f, "puppet {} subscription {} failed", self.0, self.1)
    }
}
impl std::error::Error for PuppetError {}

pub type DynErr = Arc<dyn std::error::Error + Send + Sync + 'static>;

#[derive(Clone, Debug, Default)]
pub struct SubState {
    pub greeted: bool,
    pub ended: bool,
    pub ended_with_err: i32,
    pub stopped: bool,
    pub demand: usize,
    pub pos: usize,
    pub pulls: usize,
    /// a `backlog` source that has started to catch up
    pub eager: bool,
    /// step in which the error was emitted and whether the output was live then (C05)
    pub err_step: u32,
}

pub struct Sub<T> {
    pub k: usize,
    pub edge: EdgeId,
    /// released as soon as the subscription is over (ended by the puppet or stopped from below), as
    /// a real source forgets a subscriber that is gone: whatever the operator keeps alive only
    /// through this handle goes away then
    pub sink: Mutex<Option<Arc<Sink<T>>>>,
    pub st: Mutex<SubState>,
    pub err: DynErr,
    pub err_id: i32,
}

impl<T> Sub<T> {
    fn send(&self, m: Message<T, Never>) {
        let s = self.sink.lock().unwrap().clone();
        if let Some(s) = s {
            s(m);
        }
    }
}

pub struct Puppet<T> {
    pub id: usize,
    pub name: String,
    /// operator this puppet feeds (for culprit attribution)
    pub feeds: String,
    pub spec: PuppetSpec,
    pub items: Vec<(Val, T)>,
    pub world: Arc<World>,
    pub subs: Mutex<Vec<Arc<Sub<T>>>>,
    /// run (once per subscription) from inside the handler of a downstream Terminate / Error
    pub stop_hook: Mutex<Option<Arc<dyn Fn() + Send + Sync>>>,
    /// run from inside the handler of the first Pull of every subscription
    pub pull_hook: Mutex<Option<Arc<dyn Fn() + Send + Sync>>>,
}

impl<T: Clone + Send + Sync + 'static> Puppet<T> {
    pub fn new(
        world: &Arc<World>,
        id: usize,
        feeds: &str,
        spec: PuppetSpec,
        items: Vec<(Val, T)>,
    ) -> Arc<Self> {
        Arc::new(Puppet {
            id,
            name: format!("P{}", id),
            feeds: feeds.to_string(),
            spec,
            items,
            world: Arc::clone(world),
            subs: Mutex::new(vec![]),
            stop_hook: Mutex::new(None),
            pull_hook: Mutex::new(None),
        })
    }

    pub fn source(self: &Arc<Self>) -> Arc<Source<T>> {
        let me = Arc::clone(self);
        Arc::new(
            (move |message: Message<Never, T>| {
                if let Message::Handshake(sink) = message {
                    me.on_subscribe(sink);
                }
            })
            .into(),
        )
    }

    fn on_subscribe(self: &Arc<Self>, sink: Arc<Sink<T>>) {
        let k = self.subs.lock().unwrap().len();
        let edge = self.world.new_edge(
            Role::Puppet(self.id as u16, k as u16),
            format!("{}#{}", self.name, k),
            "puppet",
            &self.feeds,
        );
        let err: DynErr = Arc::new(PuppetError(self.id, k));
        let err_id = self.world.register_err(&err, &format!("P{}", self.id));
        let sub = Arc::new(Sub {
            k,
            edge,
            sink: Mutex::new(Some(sink)),
            st: Mutex::new(SubState { ended_with_err: -1, ..Default::default() }),
            err,
            err_id,
        });
        self.subs.lock().unwrap().push(Arc::clone(&sub));
        {
            let _f = self.world.enter(edge, Dir::Up, Kind::Handshake, Val::none(), -1);
        }
        if !self.spec.late {
            self.greet_sub(&sub);
        }
    }

    pub fn sub(&self, k: usize) -> Option<Arc<Sub<T>>> {
        self.subs.lock().unwrap().get(k).cloned()
    }

    pub fn n_subs(&self) -> usize {
        self.subs.lock().unwrap().len()
    }

    pub fn greet(self: &Arc<Self>, k: usize) {
        if let Some(s) = self.sub(k) {
            self.greet_sub(&s);
        }
    }

    fn greet_sub(self: &Arc<Self>, sub: &Arc<Sub<T>>) {
        let owner = self.world.with_edge(sub.edge, |e| e.owner);
        let _o = self.world.owner_scope(owner);
        {
            let mut st = sub.st.lock().unwrap();
            if st.greeted {
                return;
            }
            st.greeted = true;
        }
        let talkback: Arc<Source<T>> = {
            let me = Arc::clone(self);
            let sub = Arc::clone(sub);
            Arc::new((move |message: Message<Never, T>| me.on_talkback(&sub, message)).into())
        };
        {
            let _f = self.world.enter(sub.edge, Dir::Down, Kind::Handshake, Val::none(), -1);
            sub.send(Message::Handshake(talkback));
        }
        if self.spec.mode == Mode::Listen {
            for _ in 0..self.spec.burst {
                if !self.emit_next(sub) {
                    break;
                }
            }
        }
    }

    fn on_talkback(self: &Arc<Self>, sub: &Arc<Sub<T>>, message: Message<Never, T>) {
        match message {
            Message::Pull => {
                let _f = self.world.enter(sub.edge, Dir::Up, Kind::Pull, Val::none(), -1);
                let (live, first) = {
                    let mut st = sub.st.lock().unwrap();
                    st.pulls += 1;
                    (!st.ended && !st.stopped, st.pulls == 1)
                };
                if first && live {
                    let h = self.pull_hook.lock().unwrap().clone();
                    if let Some(h) = h {
                        h();
                    }
                }
                if live {
                    match self.spec.mode {
                        Mode::Listen => {},
                        Mode::PullSync => {
                            for _ in 0..self.spec.per_pull.max(1) {
                                if !self.emit_next(sub) {
                                    break;
                                }
                            }
                        },
                        Mode::PullDeferred => {
                            let eager = {
                                let mut st = sub.st.lock().unwrap();
                                st.demand += 1;
                                st.eager
                            };
                            if eager {
                                self.serve_owed(sub);
                            }
                        },
                    }
                }
            },
            Message::Terminate => {
                let _f = self.world.enter(sub.edge, Dir::Up, Kind::Terminate, Val::none(), -1);
                self.stopped(sub);
            },
            Message::Error(e) => {
                let id = self.world.err_id(&e);
                let _f = self.world.enter(sub.edge, Dir::Up, Kind::Error, Val::none(), id);
                self.stopped(sub);
            },
            Message::Handshake(_) => {
                let _f = self.world.enter(sub.edge, Dir::Up, Kind::Handshake, Val::none(), -1);
            },
            Message::Data(_) => {},
        }
    }

    fn stopped(&self, sub: &Arc<Sub<T>>) {
        let first = {
            let mut st = sub.st.lock().unwrap();
            let f = !st.stopped;
            st.stopped = true;
            f
        };
        if first {
            let h = self.stop_hook.lock().unwrap().clone();
            if let Some(h) = h {
                h();
            }
        }
        *sub.sink.lock().unwrap() = None;
    }

    /// every subscription that has not been greeted yet greets now
    pub fn greet_all(self: &Arc<Self>) {
        let n = self.n_subs();
        for k in 0..n {
            if self.can_greet(k) {
                self.greet(k);
            }
        }
    }

    /// every live subscription of a listenable puppet emits its next item
    pub fn emit_all(self: &Arc<Self>) {
        if self.spec.mode != Mode::Listen {
            return;
        }
        let subs: Vec<Arc<Sub<T>>> = self.subs.lock().unwrap().clone();
        for s in subs.iter() {
            self.emit_next(s);
        }
    }

    /// Emit the next script item of this subscription (a datum or the terminal), if the
    /// subscription is greeted, not ended and not stopped. Returns whether something was sent.
    pub fn emit_next(self: &Arc<Self>, sub: &Arc<Sub<T>>) -> bool {
        let owner = self.world.with_edge(sub.edge, |e| e.owner);
        let _o = self.world.owner_scope(owner);
        enum What<T> {
            Data(Val, T),
            End,
            Err,
        }
        let what = {
            let mut st = sub.st.lock().unwrap();
            if !st.greeted || st.ended || st.stopped {
                return false;
            }
            if st.pos < self.items.len() {
                let (v, t) = self.items[st.pos].clone();
                st.pos += 1;
                What::Data(v, t)
            } else {
                match self.spec.fin {
                    Fin::End => {
                        st.ended = true;
                        What::End
                    },
                    Fin::Err => {
                        st.ended = true;
                        st.ended_with_err = sub.err_id;
                        What::Err
                    },
                    Fin::Never => return false,
                }
            }
        };
        match what {
            What::Data(v, t) => {
                {
                    let _f = self.world.enter(sub.edge, Dir::Down, Kind::Data, v, -1);
                    sub.send(Message::Data(t));
                }
                if self.spec.eager_end && self.spec.fin != Fin::Never {
                    let last = { sub.st.lock().unwrap().pos >= self.items.len() };
                    if last {
                        // re-reads ended/stopped: a disposal from inside the datum suppresses it
                        self.emit_next(sub);
                    }
                }
            },
            What::End => {
                let _f = self.world.enter(sub.edge, Dir::Down, Kind::Terminate, Val::none(), -1);
                sub.send(Message::Terminate);
                *sub.sink.lock().unwrap() = None;
            },
            What::Err => {
                let _f = self.world.enter(sub.edge, Dir::Down, Kind::Error, Val::none(), sub.err_id);
                sub.send(Message::Error(Arc::clone(&sub.err)));
                *sub.sink.lock().unwrap() = None;
            },
        }
        true
    }

    /// a catching-up source (`backlog`): one answer per Pull it still owes, until it owes nothing
    fn serve_owed(self: &Arc<Self>, sub: &Arc<Sub<T>>) {
        loop {
            {
                let mut st = sub.st.lock().unwrap();
                if st.demand == 0 || st.ended || st.stopped {
                    return;
                }
                st.demand -= 1;
            }
            if !self.emit_next(sub) {
                return;
            }
        }
    }

    /// Driver action: a Listen puppet emits one item; a PullDeferred puppet answers one Pull.
    pub fn step(self: &Arc<Self>, k: usize) -> bool {
        let sub = match self.sub(k) {
            Some(s) => s,
            None => return false,
        };
        match self.spec.mode {
            Mode::Listen => self.emit_next(&sub),
            Mode::PullDeferred if self.spec.backlog => {
                {
                    let mut st = sub.st.lock().unwrap();
                    if st.demand == 0 {
                        return false;
                    }
                    st.eager = true;
                }
                self.serve_owed(&sub);
                true
            },
            Mode::PullDeferred => {
                {
                    let mut st = sub.st.lock().unwrap();
                    if st.demand == 0 {
                        return false;
                    }
                    st.demand -= 1;
                }
                self.emit_next(&sub)
            },
            Mode::PullSync => false,
        }
    }

    /// Can the driver step subscription k right now?
    pub fn can_step(&self, k: usize) -> bool {
        let sub = match self.sub(k) {
            Some(s) => s,
            None => return false,
        };
        let st = sub.st.lock().unwrap();
        if !st.greeted || st.ended || st.stopped {
            return false;
        }
        let has_more = st.pos < self.items.len() || self.spec.fin != Fin::Never;
        match self.spec.mode {
            Mode::Listen => has_more,
            Mode::PullDeferred => st.demand > 0,
            Mode::PullSync => false,
        }
    }

    pub fn can_greet(&self, k: usize) -> bool {
        match self.sub(k) {
            Some(s) => !s.st.lock().unwrap().greeted,
            None => false,
        }
    }

    pub fn state(&self, k: usize) -> Option<SubState> {
        self.sub(k).map(|s| s.st.lock().unwrap().clone())
    }
}

/// Type-erased control surface used by the drivers.
pub trait PuppetCtl: Send + Sync {
    fn id(&self) -> usize;
    fn mode(&self) -> Mode;
    fn late(&self) -> bool;
    /// a `backlog` source that has not started to catch up
    fn building_backlog(&self, k: usize) -> bool;
    fn fin(&self) -> Fin;
    fn n_items(&self) -> usize;
    fn n_subs(&self) -> usize;
    fn edge_of(&self, k: usize) -> Option<EdgeId>;
    fn can_step(&self, k: usize) -> bool;
    fn can_greet(&self, k: usize) -> bool;
    fn step(&self, k: usize) -> bool;
    fn greet(&self, k: usize);
    fn state(&self, k: usize) -> Option<SubState>;
    fn item_val(&self, i: usize) -> Val;
    fn err_id_of(&self, k: usize) -> i32;
    /// forget every sink handle (breaks the source <-> sink reference cycles at the end of a case)
    fn teardown(&self);
    fn on_stop(&self) -> Option<(u8, usize)>;
    fn on_stop2(&self) -> Option<(u8, usize)>;
    fn clone_ctl(&self) -> Box<dyn PuppetCtl>;
    fn set_stop_hook(&self, h: Arc<dyn Fn() + Send + Sync>);
    fn on_pull(&self) -> Option<usize>;
    fn set_pull_hook(&self, h: Arc<dyn Fn() + Send + Sync>);
    fn greet_all(&self);
    fn emit_all(&self);
    /// every live subscription runs through the rest of its script, up to and including its end
    fn finish_all(&self);
}

impl<T: Clone + Send + Sync + 'static> PuppetCtl for Arc<Puppet<T>> {
    fn id(&self) -> usize {
        self.id
    }
    fn mode(&self) -> Mode {
        self.spec.mode
    }
    fn late(&self) -> bool {
        self.spec.late
    }
    fn building_backlog(&self, k: usize) -> bool {
        self.spec.backlog && self.sub(k).map(|s| { let st = s.st.lock().unwrap(); !st.eager && st.demand < 3 }).unwrap_or(false)
    }
    fn fin(&self) -> Fin {
        self.spec.fin
    }
    fn n_items(&self) -> usize {
        self.items.len()
    }
    fn n_subs(&self) -> usize {
        Puppet::n_subs(self)
    }
    fn edge_of(&self, k: usize) -> Option<EdgeId> {
        self.sub(k).map(|s| s.edge)
    }
    fn can_step(&self, k: usize) -> bool {
        Puppet::can_step(self, k)
    }
    fn can_greet(&self, k: usize) -> bool {
        Puppet::can_greet(self, k)
    }
    fn step(&self, k: usize) -> bool {
        Puppet::step(self, k)
    }
    fn greet(&self, k: usize) {
        Puppet::greet(self, k)
    }
    fn state(&self, k: usize) -> Option<SubState> {
        Puppet::state(self, k)
    }
    fn item_val(&self, i: usize) -> Val {
        self.items[i].0
    }
    fn err_id_of(&self, k: usize) -> i32 {
        self.sub(k).map(|s| s.err_id).unwrap_or(-1)
    }
    fn teardown(&self) {
        self.subs.lock().unwrap().clear();
        *self.stop_hook.lock().unwrap() = None;
        *self.pull_hook.lock().unwrap() = None;
    }
    fn on_stop(&self) -> Option<(u8, usize)> {
        self.spec.on_stop
    }
    fn on_stop2(&self) -> Option<(u8, usize)> {
        self.spec.on_stop2
    }
    fn clone_ctl(&self) -> Box<dyn PuppetCtl> {
        Box::new(Arc::clone(self))
    }
    fn set_stop_hook(&self, h: Arc<dyn Fn() + Send + Sync>) {
        *self.stop_hook.lock().unwrap() = Some(h);
    }
    fn on_pull(&self) -> Option<usize> {
        self.spec.on_pull
    }
    fn set_pull_hook(&self, h: Arc<dyn Fn() + Send + Sync>) {
        *self.pull_hook.lock().unwrap() = Some(h);
    }
    fn greet_all(&self) {
        Puppet::greet_all(self)
    }
    fn emit_all(&self) {
        Puppet::emit_all(self)
    }
    fn finish_all(&self) {
        for _ in 0..(self.items.len() + 2) {
            Puppet::emit_all(self)
        }
    }
}
