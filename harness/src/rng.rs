//! Deterministic PRNG (xorshift64*) and a choice source that can also replay / enumerate.

#[derive(Clone, Debug)]
pub struct Rng(u64);

impl Rng {
    pub fn new(seed: u64) -> Self {
        // splitmix to spread small seeds
        let mut z = seed.wrapping_add(0x9E37_79B9_7F4A_7C15);
        z = (z ^ (z >> 30)).wrapping_mul(0xBF58_476D_1CE4_E5B9);
        z = (z ^ (z >> 27)).wrapping_mul(0x94D0_49BB_1331_11EB);
        z ^= z >> 31;
        Rng(if z == 0 { 0x1234_5678_9ABC_DEF1 } else { z })
    }
    pub fn from_parts(parts: &[u64]) -> Self {
        let mut h: u64 = 0xcbf2_9ce4_8422_2325;
        for p in parts {
            for b in p.to_le_bytes() {
                h ^= b as u64;
                h = h.wrapping_mul(0x0000_0100_0000_01B3);
            }
        }
        Rng::new(h)
    }
    pub fn next_u64(&mut self) -> u64 {
        let mut x = self.0;
        x ^= x >> 12;
        x ^= x << 25;
        x ^= x >> 27;
        self.0 = x;
        x.wrapping_mul(0x2545_F491_4F6C_DD1D)
    }
    /// uniform in 0..n (n >= 1)
    pub fn below(&mut self, n: usize) -> usize {
        debug_assert!(n >= 1);
        ((self.next_u64() >> 11) % (n as u64)) as usize
    }
    pub fn range(&mut self, lo: usize, hi_incl: usize) -> usize {
        lo + self.below(hi_incl - lo + 1)
    }
    pub fn chance(&mut self, num: usize, den: usize) -> bool {
        self.below(den) < num
    }
    pub fn pick<'a, T>(&mut self, xs: &'a [T]) -> &'a T {
        &xs[self.below(xs.len())]
    }
    /// weighted pick: returns index
    pub fn weighted(&mut self, ws: &[u32]) -> usize {
        let total: u64 = ws.iter().map(|w| *w as u64).sum();
        debug_assert!(total > 0);
        let mut r = (self.next_u64() >> 11) % total;
        for (i, w) in ws.iter().enumerate() {
            if r < *w as u64 {
                return i;
            }
            r -= *w as u64;
        }
        ws.len() - 1
    }
}

/// A source of bounded choices. Either random (seeded) or scripted: a prefix of fixed choices
/// followed by zeros (used by the small-scope enumerator, which records the arity of every
/// choice point so that it can advance to the next path).
pub struct Chooser {
    rng: Option<Rng>,
    script: Vec<usize>,
    pos: usize,
    /// (chosen, arity) for every choice point hit
    pub trail: Vec<(usize, usize)>,
}

impl Chooser {
    pub fn random(rng: Rng) -> Self {
        Chooser { rng: Some(rng), script: vec![], pos: 0, trail: vec![] }
    }
    pub fn scripted(script: Vec<usize>) -> Self {
        Chooser { rng: None, script, pos: 0, trail: vec![] }
    }
    pub fn choose(&mut self, n: usize) -> usize {
        assert!(n >= 1);
        let c = if let Some(r) = &mut self.rng {
            r.below(n)
        } else {
            let c = if self.pos < self.script.len() { self.script[self.pos] } else { 0 };
            self.pos += 1;
            if c >= n {
                n - 1
            } else {
                c
            }
        };
        self.trail.push((c, n));
        c
    }
    pub fn weighted(&mut self, ws: &[u32]) -> usize {
        if let Some(r) = &mut self.rng {
            let c = r.weighted(ws);
            self.trail.push((c, ws.len()));
            c
        } else {
            // enumeration ignores weights (but skips zero-weight entries)
            let idx: Vec<usize> = (0..ws.len()).filter(|i| ws[*i] > 0).collect();
            let c = self.choose(idx.len());
            idx[c]
        }
    }
    pub fn chance(&mut self, num: usize, den: usize) -> bool {
        if let Some(r) = &mut self.rng {
            let c = r.chance(num, den);
            self.trail.push((c as usize, 2));
            c
        } else {
            self.choose(2) == 1
        }
    }
    pub fn is_random(&self) -> bool {
        self.rng.is_some()
    }
}

/// Advance an enumeration trail to the next path in DFS order; None when exhausted.
pub fn next_script(trail: &[(usize, usize)]) -> Option<Vec<usize>> {
    let mut t: Vec<(usize, usize)> = trail.to_vec();
    while let Some((c, n)) = t.pop() {
        if c + 1 < n {
            let mut s: Vec<usize> = t.iter().map(|x| x.0).collect();
            s.push(c + 1);
            return Some(s);
        }
    }
    None
}

pub fn fnv(h: &mut u64, x: u64) {
    for b in x.to_le_bytes() {
        *h ^= b as u64;
        *h = h.wrapping_mul(0x0000_0100_0000_01B3);
    }
}
pub const FNV0: u64 = 0xcbf2_9ce4_8422_2325;

pub fn fnv_str(s: &str) -> u64 {
    let mut h = FNV0;
    for b in s.bytes() {
        fnv(&mut h, b as u64);
    }
    h
}
