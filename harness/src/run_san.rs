//! E5: the E4/E1 workloads re-run hook-free under Miri (its own randomised scheduler, data-race
//! and undefined-behaviour detection) and under ThreadSanitizer. Supporting evidence for
//! C17-C19 in the thorough tier: a sanitizer report or an oracle violation under the sanitizer
//! fails the check; an environmental failure to build or start the sanitizer is recorded as
//! "skipped" and does not change the verdict of the deciding engine.

use crate::json::J;
use crate::oracles::Which;
use crate::report::Report;
use crate::run_sched::{judge, run_one, scenarios, Scenario};
use crate::run_seq::make_case;
use crate::sched::Strategy;
use crate::seq::run_case;
use crate::Opts;
use std::process::Command;

/// Reduced, hook-free, free-running workload. Used as the program Miri interprets and as the
/// program the ThreadSanitizer build runs. Prints one summary line; exit 1 on an oracle violation.
pub fn slice_main(o: &Opts, rounds: u64, e1_cases: u64) -> i32 {
    let mut n = 0u64;
    if o.prop == "C18" || o.prop == "C19" {
        let scns: Vec<Scenario> = scenarios(&o.prop);
        // a spread of small scenarios
        let step = (scns.len() / 12).max(1);
        for r in 0..rounds {
            for (si, scn) in scns.iter().enumerate() {
                if si % step != 0 {
                    continue;
                }
                let out = run_one(scn, Strategy::Free);
                n += 1;
                if out.aborted {
                    println!("SLICE-INCONCLUSIVE watchdog in scenario {} round {}", si, r);
                    return 2;
                }
                if let Some((kind, detail)) = judge(scn, &out) {
                    println!("SLICE-VIOLATION property={} scenario={} ({}) kind={} {}", o.prop, si, scn.describe(), kind, detail);
                    return 1;
                }
            }
        }
    }
    let mut m = 0u64;
    if e1_cases > 0 {
        let which = Which::all();
        for op in crate::seq::ALL_OPS {
            for i in 0..e1_cases {
                let (spec, mut c) = make_case(o.seed, "C17", op, i);
                let r = run_case(&spec, &mut c, &which);
                m += 1;
                if let Some(p) = &r.crate_panic {
                    println!("SLICE-VIOLATION property=C17 case=E1:C17:{}:{}:{} panic {}", o.seed, op, i, p);
                    return 1;
                }
            }
        }
    }
    println!("SLICE-OK threaded_executions={} sequential_cases={}", n, m);
    0
}

fn harness_dir() -> String {
    std::env::var("CBVERIF_HARNESS_DIR").unwrap_or_else(|_| "/verif/harness".into())
}

fn tail(s: &str, n: usize) -> String {
    let lines: Vec<&str> = s.lines().collect();
    lines[lines.len().saturating_sub(n)..].join("\n")
}

pub fn substeps(o: &Opts, rep: &mut Report) {
    let dir = harness_dir();
    let mut results = vec![];
    // ---- Miri
    {
        let t0 = std::time::Instant::now();
        let seeds = if o.prop == "C17" { "0..4" } else { "0..8" };
        let out = Command::new("cargo")
            .current_dir(&dir)
            .env("MIRIFLAGS", format!("-Zmiri-disable-isolation -Zmiri-many-seeds={}", seeds))
            .env("CARGO_NET_OFFLINE", "true")
            .env_remove("RUSTFLAGS")
            .args(["+nightly", "miri", "run", "--offline", "--target-dir", &format!("{}/target-miri", dir), "--", "slice"])
            .args(["--prop", &o.prop, "--seed", &o.seed.to_string(), "--cases", if o.prop == "C17" { "6" } else { "2" }])
            .output();
        let j = match out {
            Err(e) => J::obj().set("step", J::s("miri")).set("outcome", J::s(&format!("skipped: cannot start cargo miri: {}", e))),
            Ok(out) => {
                let so = String::from_utf8_lossy(&out.stdout).to_string();
                let se = String::from_utf8_lossy(&out.stderr).to_string();
                let oks = so.lines().filter(|l| l.starts_with("SLICE-OK")).count();
                let vio: Vec<&str> = so.lines().filter(|l| l.starts_with("SLICE-VIOLATION")).collect();
                let ub = se.contains("Undefined Behavior") || se.contains("Data race detected");
                if !vio.is_empty() {
                    rep.add_violation(&o.prop, "miri/oracle-violation-under-miri-scheduler", vio[0], "E5:miri", J::s(&tail(&so, 40)));
                    J::obj().set("step", J::s("miri")).set("outcome", J::s("oracle violation")).set("detail", J::s(vio[0]))
                } else if ub {
                    let d = tail(&se, 60);
                    rep.add_violation(&o.prop, "miri/undefined-behaviour-or-data-race", "Miri reported undefined behaviour or a data race", "E5:miri", J::s(&d));
                    J::obj().set("step", J::s("miri")).set("outcome", J::s("Miri report")).set("detail", J::s(&d))
                } else if out.status.success() && oks > 0 {
                    rep.bump("miri seeds completed without report", oks as u64);
                    J::obj()
                        .set("step", J::s("miri"))
                        .set("outcome", J::s("no report"))
                        .set("seeds", J::s(seeds))
                        .set("summary_lines", J::arr(so.lines().filter(|l| l.starts_with("SLICE-OK")).take(3).map(|l| J::s(l))))
                } else {
                    J::obj()
                        .set("step", J::s("miri"))
                        .set("outcome", J::s("skipped: cargo miri did not complete"))
                        .set("exit", J::i(out.status.code().unwrap_or(-1) as i64))
                        .set("stderr_tail", J::s(&tail(&se, 15)))
                }
            },
        };
        results.push(j.set("wall_s", J::Num(t0.elapsed().as_secs_f64())));
    }
    // ---- ThreadSanitizer (threaded properties only)
    if o.prop == "C18" || o.prop == "C19" {
        let t0 = std::time::Instant::now();
        let tdir = format!("{}/target-tsan", dir);
        let build = Command::new("cargo")
            .current_dir(&dir)
            .env("RUSTFLAGS", "-Zsanitizer=thread")
            .env("CARGO_NET_OFFLINE", "true")
            .args(["+nightly", "build", "--offline", "--release", "-Zbuild-std", "--target", "x86_64-unknown-linux-gnu", "--target-dir", &tdir])
            .output();
        let j = match build {
            Err(e) => J::obj().set("step", J::s("tsan")).set("outcome", J::s(&format!("skipped: cannot start cargo: {}", e))),
            Ok(b) if !b.status.success() => J::obj()
                .set("step", J::s("tsan"))
                .set("outcome", J::s("skipped: -Zsanitizer=thread build failed"))
                .set("stderr_tail", J::s(&tail(&String::from_utf8_lossy(&b.stderr), 15))),
            Ok(_) => {
                let bin = format!("{}/x86_64-unknown-linux-gnu/release/cbverif", tdir);
                let run = Command::new(&bin)
                    .env("TSAN_OPTIONS", "halt_on_error=1 exitcode=66 second_deadlock_stack=1")
                    .args(["slice", "--prop", &o.prop, "--seed", &o.seed.to_string(), "--cases", "3000"])
                    .output();
                match run {
                    Err(e) => J::obj().set("step", J::s("tsan")).set("outcome", J::s(&format!("skipped: cannot run {}: {}", bin, e))),
                    Ok(r) => {
                        let so = String::from_utf8_lossy(&r.stdout).to_string();
                        let se = String::from_utf8_lossy(&r.stderr).to_string();
                        if r.status.code() == Some(66) || se.contains("WARNING: ThreadSanitizer") {
                            let d = tail(&se, 80);
                            rep.add_violation(&o.prop, "tsan/data-race", "ThreadSanitizer reported a data race", "E5:tsan", J::s(&d));
                            J::obj().set("step", J::s("tsan")).set("outcome", J::s("ThreadSanitizer report")).set("detail", J::s(&d))
                        } else if let Some(v) = so.lines().find(|l| l.starts_with("SLICE-VIOLATION")) {
                            rep.add_violation(&o.prop, "tsan/oracle-violation-under-tsan-build", v, "E5:tsan", J::s(&tail(&so, 40)));
                            J::obj().set("step", J::s("tsan")).set("outcome", J::s("oracle violation")).set("detail", J::s(v))
                        } else if r.status.success() {
                            rep.bump("tsan free-running executions without report", 1);
                            J::obj().set("step", J::s("tsan")).set("outcome", J::s("no report")).set(
                                "summary",
                                J::s(so.lines().find(|l| l.starts_with("SLICE-OK")).unwrap_or("")),
                            )
                        } else {
                            J::obj()
                                .set("step", J::s("tsan"))
                                .set("outcome", J::s("skipped: the instrumented binary did not complete"))
                                .set("exit", J::i(r.status.code().unwrap_or(-1) as i64))
                                .set("stderr_tail", J::s(&tail(&se, 15)))
                        }
                    },
                }
            },
        };
        results.push(j.set("wall_s", J::Num(t0.elapsed().as_secs_f64())));
    }
    rep.extra.push(("sanitizer_substeps".into(), J::Arr(results)));
}

// ---------------------------------------------------------------------------------------------
// C15: stack depth does not grow with the number of items. Runs in a child process on a thread
// with a small stack; a stack overflow kills only the child.
// ---------------------------------------------------------------------------------------------

pub fn deepiter_main(items: usize) -> i32 {
    use std::sync::atomic::{AtomicUsize, Ordering};
    use std::sync::Arc;
    let n = Arc::new(AtomicUsize::new(0));
    let n2 = Arc::clone(&n);
    let h = std::thread::Builder::new()
        .stack_size(256 * 1024)
        .spawn(move || {
            let it = crate::pull::CountIter::new(0, 0, Some(items), None);
            let mut it = it;
            it.budget = usize::MAX;
            // for_each pulls again from inside every data handler
            callbag::pipe!(
                callbag::from_iter(it),
                callbag::for_each(move |_x: i64| {
                    n2.fetch_add(1, Ordering::SeqCst);
                })
            );
        })
        .unwrap();
    let ok = h.join().is_ok();
    println!("DEEPITER delivered={} of {} joined_ok={}", n.load(Ordering::SeqCst), items, ok);
    if ok && n.load(Ordering::SeqCst) == items {
        0
    } else {
        1
    }
}

pub fn deepiter_substep(o: &Opts, rep: &mut Report) {
    let items = if o.tier == "thorough" { 2_000_000 } else { 200_000 };
    let exe = match std::env::current_exe() {
        Ok(e) => e,
        Err(e) => {
            rep.inconclusive.push(format!("cannot locate own executable: {}", e));
            return;
        },
    };
    let out = Command::new(exe).args(["deepiter", "--cases", &items.to_string()]).output();
    match out {
        Err(e) => rep.inconclusive.push(format!("cannot run the deep-iterator child: {}", e)),
        Ok(out) => {
            let so = String::from_utf8_lossy(&out.stdout).to_string();
            let line = so.lines().find(|l| l.starts_with("DEEPITER")).unwrap_or("").to_string();
            if out.status.success() {
                rep.bump("c15.deep-iterator-items-on-256KiB-stack", items as u64);
                rep.evaluations += 1;
                rep.extra.push(("deep_iterator_child".into(), J::s(&line)));
            } else {
                let d = format!(
                    "from_iter over {} items with a sink that pulls from inside its data handler, on a thread with a 256 KiB stack: child exited with {:?} ({})",
                    items,
                    out.status,
                    line
                );
                rep.add_violation("C15", "from_iter/stack-grows-with-items", &d, "E2d:deepiter", J::s(&tail(&String::from_utf8_lossy(&out.stderr), 10)));
            }
        },
    }
}
