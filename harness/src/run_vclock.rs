//! Runner for engine E3: `interval` driven on the virtual clock (C16; also the interval cases of
//! C01-C03, C13, C17).

use crate::json::J;
use crate::probe::{Probe, ProbeSpec, React};
use crate::report::{load_known, Report};
use crate::rng::{Chooser, Rng};
use crate::seq::{gen_probe_spec, is_crate_location, take_last_panic, QUIET_PANICS};
use crate::topo::Src;
use crate::vclock::VExec;
use crate::world::{abstract_hash, push_violation, render, Dir, Kind, World};
use crate::Opts;
use async_nursery::NurseErr;
use std::panic::{catch_unwind, AssertUnwindSafe};
use std::sync::Arc;
use std::time::Duration;

#[derive(Clone, Debug)]
pub struct SubPlan {
    pub source: usize,
    pub fault: Option<u8>,
    /// periods that elapse inside nurse()
    pub j: u64,
    pub probe: ProbeSpec,
}

#[derive(Clone, Debug)]
pub struct VCase {
    /// the executor polls a spawned task only after nurse() and the greeting have returned
    pub defer_first_poll: bool,
    pub periods: Vec<u64>,
    pub subs: Vec<SubPlan>,
    pub max_steps: usize,
}

#[derive(Clone, Debug)]
pub enum VAct {
    Subscribe(usize),
    Advance(u64),
    Dispose(usize, bool),
    Pull(usize),
}

impl VAct {
    fn show(&self) -> String {
        match self {
            VAct::Subscribe(i) => format!("subscribe S{}", i),
            VAct::Advance(d) => format!("advance {}us", d),
            VAct::Dispose(i, e) => format!("S{} {}", i, if *e { "Error" } else { "Terminate" }),
            VAct::Pull(i) => format!("S{} Pull", i),
        }
    }
}

pub fn gen_vcase(c: &mut Chooser, allow_j: bool) -> VCase {
    let n_src = 1 + c.choose(2);
    // virtual microseconds; periods need not be whole milliseconds
    // one case in sixteen lives on the scale of hours and days (every source of the case, so that an
    // advance of a day does not mean hundreds of millions of ticks of a fast sibling)
    const H: u64 = 3_600_000_000;
    let long = c.chance(1, 16);
    let periods: Vec<u64> = (0..n_src)
        .map(|_| {
            if long {
                [H, 2 * H + 1, 24 * H, 24 * H + 40_000, 25 * H, 48 * H, 72 * H + 999, 168 * H][c.choose(8)]
            } else {
                [300u64, 500, 900, 1000, 1500, 1950, 2000, 2500, 3000, 7000, 1001, 6_999][c.choose(12)]
            }
        })
        .collect();
    let n_subs = 1 + c.choose(4);
    let subs = (0..n_subs)
        .map(|_| {
            let fault = if c.chance(1, 8) { Some(c.choose(2) as u8) } else { None };
            let j = if allow_j && c.chance(1, 5) { 1 + c.choose(2) as u64 } else { 0 };
            let mut probe = gen_probe_spec(c, true);
            probe.pull_cap = 50;
            probe.drop_talkback = c.chance(1, 6);
            SubPlan { source: c.choose(n_src), fault, j, probe }
        })
        .collect();
    VCase { defer_first_poll: c.chance(1, 2), periods, subs, max_steps: 6 + c.choose(20) }
}

struct SubRt {
    probe: Arc<Probe<usize>>,
    t_sub: u64,
    task: Option<usize>,
    /// virtual time of a top-level disposal
    disposed_at: Option<u64>,
}

impl Drop for VResult {
    fn drop(&mut self) {
        self.world.teardown();
    }
}

pub struct VResult {
    pub world: Arc<World>,
    pub steps: Vec<(VAct, u64)>,
    pub case: VCase,
    pub polls: u64,
    pub tie_breaks: u64,
}

pub fn run_vcase(case: &VCase, c: &mut Chooser, seed_rng: Rng) -> VResult {
    let world = World::new();
    let exec = VExec::new(seed_rng);
    {
        let mut g = exec.0.lock().unwrap();
        g.faults = case.subs.iter().map(|s| s.fault).collect();
        g.defer_first_poll = case.defer_first_poll;
        g.elapse_inside_nurse =
            case.subs.iter().map(|s| s.j * case.periods[s.source]).collect();
    }
    let sources: Vec<Src<usize>> = case
        .periods
        .iter()
        .map(|p| -> Src<usize> { Arc::new(callbag::interval(Duration::from_micros(*p), exec.clone())) })
        .collect();
    let mut rts: Vec<SubRt> = vec![];
    for (i, s) in case.subs.iter().enumerate() {
        let p = Probe::<usize>::new(&world, i, "interval", s.probe.clone());
        if s.fault.is_some() {
            world.with_edge(p.edge, |e| e.allow_ungreeted_error = true);
        }
        rts.push(SubRt { probe: p, t_sub: 0, task: None, disposed_at: None });
    }
    let mut steps: Vec<(VAct, u64)> = vec![];
    let mut next_sub = 0usize;
    QUIET_PANICS.with(|q| q.set(true));
    let mut n = 0;
    let mut ok = true;
    while ok && n < case.max_steps {
        // enabled actions
        let mut acts: Vec<(VAct, u32)> = vec![];
        if next_sub < case.subs.len() {
            acts.push((VAct::Subscribe(next_sub), 5));
        }
        let min_period = case.periods.iter().copied().min().unwrap_or(1000);
        if min_period >= 1_000_000 {
            // slow sources: advance by fractions and multiples of one of the periods (at most a
            // couple of hundred ticks per step), or by a short while
            let p = case.periods[c.choose(case.periods.len())];
            let d = [40_000u64, 1_000_000, p / 2, p - 1, p, p + 1, 2 * p + 7, 86_400_000_000][c.choose(8)];
            acts.push((VAct::Advance(d.max(1)), 10));
        } else {
            acts.push((VAct::Advance(50 * (1 + c.choose(280)) as u64), 10));
        }
        for (i, r) in rts.iter().enumerate() {
            if r.probe.can_act() {
                acts.push((VAct::Dispose(i, false), 1));
                acts.push((VAct::Dispose(i, true), 1));
                acts.push((VAct::Pull(i), 1));
            }
        }
        let ws: Vec<u32> = acts.iter().map(|a| a.1).collect();
        let a = acts[c.weighted(&ws)].0.clone();
        let owner = match &a {
            VAct::Subscribe(i) | VAct::Dispose(i, _) | VAct::Pull(i) => *i as i32,
            VAct::Advance(_) => -1,
        };
        world.begin_step(owner);
        let r = catch_unwind(AssertUnwindSafe(|| match &a {
            VAct::Subscribe(i) => {
                let spawned_before = exec.0.lock().unwrap().tasks.len();
                rts[*i].t_sub = exec.now();
                rts[*i].probe.subscribe(&sources[case.subs[*i].source]);
                let spawned_after = exec.0.lock().unwrap().tasks.len();
                if spawned_after > spawned_before {
                    rts[*i].task = Some(spawned_before);
                }
                exec.run_unpolled();
                next_sub += 1;
            },
            VAct::Advance(d) => {
                let t = exec.now() + *d;
                // every live task wakes at most once per elapsed period (+ slack for first polls)
                let per_task: u64 = case.periods.iter().map(|p| *d / (*p).max(1) + 3).max().unwrap_or(3);
                exec.0.lock().unwrap().poll_budget = Some(per_task * (case.subs.len() as u64 + 1) + 16);
                exec.advance_to(t);
                exec.0.lock().unwrap().poll_budget = None;
            },
            VAct::Dispose(i, e) => {
                let now = exec.now();
                if rts[*i].probe.act(if *e { React::Error } else { React::Terminate }) {
                    rts[*i].disposed_at = Some(now);
                }
            },
            VAct::Pull(i) => {
                rts[*i].probe.act(React::Pull);
            },
        }));
        steps.push((a, exec.now()));
        if r.is_err() {
            let (loc, msg) = take_last_panic().unwrap_or_default();
            if is_crate_location(&loc) {
                world.violate(&["C17"], "panic", "interval", 0, -1, format!("panicked at {}: {}", loc, msg));
            } else if msg.starts_with("HARNESS: VCLOCK:") {
                // numbers delivered with no period elapsed: exactly what C16 forbids
                world.violate(
                    &["C16"],
                    "ticks-without-elapsed-period",
                    "interval",
                    0,
                    -1,
                    format!("{} (periods in this case: {:?} us)", msg, case.periods),
                );
            } else {
                world.harness_fault(format!("harness panic at {}: {}", loc, msg));
            }
            ok = false;
            break;
        }
        oracle(case, &world, &exec, &rts);
        n += 1;
    }
    QUIET_PANICS.with(|q| q.set(false));
    let (polls, tie_breaks) = {
        let mut g = exec.0.lock().unwrap();
        // drop the pending tasks (they hold the sinks) and the probes' talkbacks
        g.tasks.clear();
        g.timers.clear();
        (g.polls, g.tie_breaks)
    };
    for r in rts.iter() {
        *r.probe.talkback.lock().unwrap() = None;
    }
    VResult { world, steps, case: case.clone(), polls, tie_breaks }
}

fn oracle(case: &VCase, world: &Arc<World>, exec: &VExec, rts: &[SubRt]) {
    let now = exec.now();
    let mut g = world.lock();
    let g = &mut *g;
    if g.violations.iter().any(|v| v.props.contains(&"C16")) {
        return;
    }
    for (i, r) in rts.iter().enumerate() {
        let plan = &case.subs[i];
        let pe = r.probe.edge;
        if !r.probe.subscribed.lock().map(|s| *s).unwrap_or(false) {
            continue;
        }
        let p = case.periods[plan.source];
        let evs: Vec<usize> = g.edges[pe].events.iter().map(|x| *x as usize).collect();
        let data: Vec<i64> = evs
            .iter()
            .filter(|x| g.events[**x].dir == Dir::Down && g.events[**x].kind == Kind::Data)
            .map(|x| g.events[*x].val.a[0])
            .collect();
        if let Some(f) = plan.fault {
            // exactly one Error carrying the injected NurseErr, and nothing else
            let down: Vec<usize> = evs.iter().copied().filter(|x| g.events[*x].dir == Dir::Down).collect();
            let ok_shape = down.len() == 1 && g.events[down[0]].kind == Kind::Error;
            let want = if f == 0 { NurseErr::Spawn } else { NurseErr::Closed };
            let carried = r.probe.last_err.lock().unwrap().clone();
            let ok_err = carried.as_ref().and_then(|e| e.downcast_ref::<NurseErr>().cloned()) == Some(want);
            if !ok_shape || !ok_err {
                let d = format!(
                    "spawn failure {:?} injected; sink received {:?} (error carried: {:?})",
                    want,
                    down.iter().map(|x| format!("{:?}", g.events[*x].kind)).collect::<Vec<_>>(),
                    carried.as_ref().map(|e| e.to_string())
                );
                push_violation(g, &["C16"], "refused-subscription-not-exactly-one-error", "interval", pe, -1, d);
            }
            continue;
        }
        // disposal inside a data handler: after datum k nothing more
        let up_term_ev = g.edges[pe].up_term_ev;
        let in_handler_k: Option<usize> = if up_term_ev >= 0 && r.disposed_at.is_none() {
            // number of data delivered up to and including the one whose handler disposed
            let t = g.events[up_term_ev as usize].t_in;
            Some(evs.iter().filter(|x| g.events[**x].dir == Dir::Down && g.events[**x].kind == Kind::Data && g.events[**x].t_in < t).count())
        } else {
            None
        };
        let horizon = match r.disposed_at {
            Some(td) => td.min(now),
            None => now,
        };
        let mut expected = ((horizon.saturating_sub(r.t_sub)) / p) as usize;
        if let Some(k) = in_handler_k {
            expected = expected.min(k);
        }
        let want: Vec<i64> = (0..expected as i64).collect();
        if data != want {
            let d = format!(
                "period {}us subscribed at t={} now t={}{}: expected {:?}, sink received {:?}",
                p,
                r.t_sub,
                now,
                match (r.disposed_at, in_handler_k) {
                    (Some(td), _) => format!(" disposed at t={}", td),
                    (None, Some(k)) => format!(" disposed inside the handler of datum #{}", k),
                    _ => String::new(),
                },
                want,
                data
            );
            let kind = if data.len() > want.len() && (r.disposed_at.is_some() || in_handler_k.is_some()) {
                "tick-after-disposal"
            } else {
                "not-one-number-per-period"
            };
            push_violation(g, &["C16", "C13"], kind, "interval", pe, -1, d);
            continue;
        }
        // bounded silence: the ticking task ends at the first expiry after the disposal
        if let Some(t) = r.task {
            let disposed = r.disposed_at.is_some() || in_handler_k.is_some();
            let done = exec.task_done_at(t);
            if !disposed {
                if done.is_some() {
                    push_violation(g, &["C16"], "task-ended-while-subscribed", "interval", pe, -1, String::new());
                }
            } else {
                let last_tick = r.t_sub + (expected as u64) * p;
                let due = last_tick + p;
                if now >= due && done.is_none() {
                    let d = format!("disposed, next expiry was t={}, now t={}: the task is still pending", due, now);
                    push_violation(g, &["C16"], "task-not-stopped-within-one-period", "interval", pe, -1, d);
                }
            }
        }
    }
}

pub fn vcase_json(r: &VResult) -> J {
    let g = r.world.lock();
    J::obj()
        .set("executor_defers_first_poll", J::Bool(r.case.defer_first_poll))
        .set("periods_us", J::arr(r.case.periods.iter().map(|p| J::i(*p as i64))))
        .set(
            "subscriptions",
            J::arr(r.case.subs.iter().enumerate().map(|(i, s)| {
                J::s(&format!(
                    "S{}: source {} fault={:?} periods-elapsing-inside-nurse={} policy={:?} rest={:?}{}",
                    i, s.source, s.fault, s.j, s.probe.policy, s.probe.rest, if s.probe.drop_talkback { " drops-its-talkback" } else { "" }
                ))
            })),
        )
        .set("env_steps", J::arr(r.steps.iter().map(|(a, t)| J::s(&format!("{} -> t={}", a.show(), t)))))
        .set("trace", J::arr(render(&g).into_iter().map(|l| J::s(&l))))
}

pub fn make_vcase(seed: u64, prop: &str, index: u64) -> (VCase, Chooser, Rng) {
    let mut c = Chooser::random(Rng::from_parts(&[seed, 0xE3, index]));
    // C16's quantifier is the virtual clock with spawn failures; the in-nurse elapse models the
    // race of finding K2 and belongs to C01 (data before the greeting)
    let allow_j = prop == "C01" || prop == "C17" || prop == "C16";
    let case = gen_vcase(&mut c, allow_j);
    (case, c, Rng::from_parts(&[seed, 0xE3E3, index]))
}

/// Directed witness of finding K2 (C01): one period elapses inside nurse().
fn run_k2_witness(o: &Opts, rep: &mut Report) {
    if o.prop != "C01" {
        return;
    }
    let known = load_known(&o.known);
    let case = VCase {
        defer_first_poll: false,
        periods: vec![3000],
        subs: vec![SubPlan { source: 0, fault: None, j: 1, probe: ProbeSpec::passive() }],
        max_steps: 1,
    };
    let mut c = Chooser::scripted(vec![0]);
    let r = run_vcase(&case, &mut c, Rng::new(1));
    let before = rep.known_hits.values().map(|v| v.0).sum::<u64>();
    digest_v(rep, &o.prop, "E3w:C01:K2 interval tick before greeting", &r, &known, false);
    let after = rep.known_hits.values().map(|v| v.0).sum::<u64>();
    let outcome = if after > before { "reproduced (matches an open known finding)" } else { "finding not reproduced" };
    rep.extra.push((
        "known_finding_witness_K2".into(),
        J::obj().set("witness", J::s("K2 interval: a period elapses inside nurse(), Data(0) precedes the Handshake")).set("outcome", J::s(outcome)),
    ));
}

pub fn run(o: &Opts, rep: &mut Report, share_of_budget: u64) {
    run_k2_witness(o, rep);
    let known = load_known(&o.known);
    let total: u64 = o.cases.unwrap_or(if o.tier == "thorough" { 4_000_000 } else { 200_000 }) / share_of_budget.max(1);
    let nthreads = o.threads.max(1);
    let seed = o.seed;
    let prop = o.prop.clone();
    let mut reports: Vec<Report> = vec![];
    std::thread::scope(|s| {
        let mut hs = vec![];
        for t in 0..nthreads {
            let known = known.clone();
            let prop = prop.clone();
            hs.push(s.spawn(move || {
                let mut rep = Report::default();
                let mut i = t as u64;
                while i < total {
                    let (case, mut c, rng) = make_vcase(seed, &prop, i);
                    let r = run_vcase(&case, &mut c, rng);
                    let id = format!("E3:{}:{}:{}", prop, seed, i);
                    digest_v(&mut rep, &prop, &id, &r, &known, t == 0);
                    i += nthreads as u64;
                }
                rep
            }));
        }
        for h in hs {
            match h.join() {
                Ok(r) => reports.push(r),
                Err(_) => {
                    let mut r = Report::default();
                    r.harness_faults.push("worker thread panicked".into());
                    reports.push(r);
                },
            }
        }
    });
    for r in reports {
        rep.merge(r);
    }
}

fn digest_v(rep: &mut Report, prop: &str, id: &str, r: &VResult, known: &[crate::report::Known], sample: bool) {
    rep.evaluations += 1;
    let g = r.world.lock();
    let n_events = g.events.len() as u64;
    rep.events += n_events;
    let e = rep.per_op.entry("interval".into()).or_insert([0; 3]);
    e[0] += 1;
    e[2] += n_events;
    let ticks = g.events.iter().filter(|ev| ev.dir == Dir::Down && ev.kind == Kind::Data).count();
    let disposed = g.edges.iter().any(|e| e.up_term);
    let nontrivial = match prop {
        "C03" => disposed && ticks > 0,
        "C02" => g.edges.iter().any(|e| e.down_term),
        _ => ticks > 0,
    };
    if nontrivial {
        e[1] += 1;
        rep.nontrivial_cases += 1;
        let mut h = abstract_hash(&g);
        crate::rng::fnv(&mut h, 0xE3);
        rep.nontrivial.insert(h);
    }
    rep.bump("interval.ticks-delivered", ticks as u64);
    rep.bump("interval.task-polls", r.polls);
    rep.bump("interval.simultaneous-expiries-tie-broken", r.tie_breaks);
    if r.case.subs.iter().any(|s| s.fault.is_some()) {
        rep.bump("interval.cases-with-injected-spawn-failure", 1);
    }
    if r.case.subs.iter().any(|s| s.j > 0) {
        rep.bump("interval.cases-with-time-elapsing-inside-nurse", 1);
    }
    if disposed {
        rep.bump("interval.cases-with-disposal", 1);
    }
    for f in &g.harness_faults {
        if rep.harness_faults.len() < 20 {
            rep.harness_faults.push(format!("{} [{}]", f, id));
        }
    }
    drop(g);
    if sample && nontrivial && rep.samples.len() < 2 {
        rep.samples.push(vcase_json(r).set("case_id", J::s(id)));
    }
    let vs = r.world.lock().violations.clone();
    for v in vs.iter() {
        let mut v = v.clone();
        // K2: data before the greeting when virtual time elapsed inside nurse() for that subscription
        if v.culprit == "interval" && v.kind == "delivery-before-greeting" {
            let g = r.world.lock();
            if let crate::world::Role::Probe(pi) = g.edges[v.edge].role {
                if r.case.subs.get(pi as usize).map(|s| s.j > 0).unwrap_or(false) {
                    v.context = "tick-elapsed-inside-nurse".into();
                }
            }
        }
        let sig = v.signature();
        if let Some(k) = known.iter().find(|k| k.signature == sig && v.props.contains(&k.property.as_str())) {
            if k.property == prop {
                let e = rep.known_hits.entry(sig.clone()).or_insert((0, k.text.clone()));
                e.0 += 1;
            }
            break;
        }
        if v.props.contains(&prop) {
            let detail = format!("{} on {} (step {}): {}", v.kind, v.edge_label, v.step, v.detail);
            rep.add_violation(prop, &sig, &detail, id, vcase_json(r));
            break;
        }
    }
}

pub fn replay(o: &Opts, parts: &[&str]) -> i32 {
    // E3:<prop>:<seed>:<index>
    if parts.len() < 4 {
        eprintln!("malformed case id");
        return 2;
    }
    let prop = parts[1];
    let seed: u64 = parts[2].parse().unwrap_or(1);
    let index: u64 = parts[3].parse().unwrap_or(0);
    let (case, mut c, rng) = make_vcase(seed, prop, index);
    let r = run_vcase(&case, &mut c, rng);
    println!("{}", vcase_json(&r).pretty());
    let known = load_known(&o.known);
    let mut rep = Report::default();
    digest_v(&mut rep, prop, &parts.join(":"), &r, &known, false);
    for v in r.world.lock().violations.iter() {
        println!("violation: {:?} {} culprit={} edge={} step={} {}", v.props, v.kind, v.culprit, v.edge_label, v.step, v.detail);
    }
    if rep.violations.is_empty() {
        0
    } else {
        1
    }
}

// ---------------------------------------------------------------------------------------------
// Real-executor smoke test (thorough tier of C16): evidence that the mock executor is not lying
// about the Nurse/Timer contracts. Wall-clock tolerant: only "0,1,2,... consecutive from 0",
// independence of two subscriptions and silence after disposal are looked at, never tick counts.
// ---------------------------------------------------------------------------------------------

pub fn real_executor_smoke(rep: &mut Report) {
    use async_executors::AsyncStd;
    use async_nursery::Nursery;
    use callbag::Message;
    use std::sync::Mutex;
    type Log = Arc<Mutex<Vec<String>>>;
    type Tb = Arc<Mutex<Option<Arc<callbag::Source<usize>>>>>;
    fn sink(log: &Log, tb: &Tb) -> Arc<callbag::Sink<usize>> {
        let log = Arc::clone(log);
        let tb = Arc::clone(tb);
        Arc::new(
            (move |m: Message<usize, never::Never>| match m {
                Message::Handshake(t) => {
                    *tb.lock().unwrap() = Some(t);
                    log.lock().unwrap().push("H".into());
                },
                Message::Data(d) => log.lock().unwrap().push(format!("{}", d)),
                Message::Terminate => log.lock().unwrap().push("T".into()),
                Message::Error(_) => log.lock().unwrap().push("E".into()),
                Message::Pull => {},
            })
            .into(),
        )
    }
    let (nursery, nursery_out) = Nursery::new(AsyncStd);
    let src: Src<usize> = Arc::new(callbag::interval(Duration::from_millis(5), nursery.clone()));
    let (la, ta): (Log, Tb) = (Arc::new(Mutex::new(vec![])), Arc::new(Mutex::new(None)));
    let (lb, tb): (Log, Tb) = (Arc::new(Mutex::new(vec![])), Arc::new(Mutex::new(None)));
    src(Message::Handshake(sink(&la, &ta)));
    std::thread::sleep(Duration::from_millis(60));
    src(Message::Handshake(sink(&lb, &tb)));
    std::thread::sleep(Duration::from_millis(60));
    if let Some(t) = ta.lock().unwrap().clone() {
        t(Message::Terminate);
    }
    std::thread::sleep(Duration::from_millis(40));
    let a_after_dispose = la.lock().unwrap().len();
    std::thread::sleep(Duration::from_millis(60));
    if let Some(t) = tb.lock().unwrap().clone() {
        t(Message::Terminate);
    }
    std::thread::sleep(Duration::from_millis(40));
    let a_final = la.lock().unwrap().clone();
    let b_final = lb.lock().unwrap().clone();
    drop(src);
    drop(nursery);
    let joined = async_std::task::block_on(async_std::future::timeout(Duration::from_secs(5), nursery_out)).is_ok();
    let consecutive = |l: &Vec<String>| -> bool {
        let nums: Vec<usize> = l.iter().filter_map(|x| x.parse().ok()).collect();
        nums.iter().enumerate().all(|(i, v)| *v == i)
    };
    let mut problems = vec![];
    if !consecutive(&a_final) {
        problems.push(format!("first subscription did not receive 0,1,2,...: {:?}", a_final));
    }
    if !consecutive(&b_final) {
        problems.push(format!("second subscription did not count from 0 on its own: {:?}", b_final));
    }
    if a_final.len() != a_after_dispose {
        problems.push(format!("first subscription received {} messages after its disposal had been visible for 8 periods", a_final.len() - a_after_dispose));
    }
    rep.evaluations += 1;
    rep.bump("interval.real-executor-smoke-runs", 1);
    let summary = J::obj()
        .set("executor", J::s("async-std (AsyncStd + Nursery), period 5 ms"))
        .set("first_subscription", J::s(&a_final.join(" ")))
        .set("second_subscription", J::s(&b_final.join(" ")))
        .set("tasks_ended_within_5s_of_disposal", J::Bool(joined))
        .set("problems", J::arr(problems.iter().map(|p| J::s(p))));
    if !problems.is_empty() {
        rep.add_violation("C16", "interval/real-executor-smoke", &problems.join("; "), "E3r:smoke", summary.clone());
    }
    rep.extra.push(("real_executor_smoke".into(), summary));
}
