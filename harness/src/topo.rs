//! Topologies: which crate operator is under test and how puppets/probes are wired to it.

use crate::probe::{Probe, ProbeCtl, ProbeSpec};
use crate::puppet::{Fin, Mode, Puppet, PuppetCtl, PuppetSpec};
use crate::rng::Chooser;
use crate::tap::tap;
use crate::world::{Repr, Val, World};
use callbag::Source;
use std::sync::{
    atomic::{AtomicUsize, Ordering},
    Arc,
};

pub type V = i64;
pub type Src<T> = Arc<Source<T>>;

#[derive(Clone, Copy, Debug, PartialEq, Eq, Hash)]
pub enum UnOp {
    Map,
    Filter { m: i64, r: i64 },
    Scan { seed: i64 },
    Take(usize),
    Skip(usize),
}

impl UnOp {
    pub fn name(&self) -> &'static str {
        match self {
            UnOp::Map => "map",
            UnOp::Filter { .. } => "filter",
            UnOp::Scan { .. } => "scan",
            UnOp::Take(_) => "take",
            UnOp::Skip(_) => "skip",
        }
    }
    pub fn describe(&self) -> String {
        match self {
            UnOp::Map => "map(2x+1)".into(),
            UnOp::Filter { m, r } => format!("filter(x%{}!={})", m, r),
            UnOp::Scan { seed } => format!("scan(+,{})", seed),
            UnOp::Take(n) => format!("take({})", n),
            UnOp::Skip(n) => format!("skip({})", n),
        }
    }
    /// the list function this operator denotes (C07)
    pub fn list_fn(&self, xs: &[i64]) -> Vec<i64> {
        match *self {
            UnOp::Map => xs.iter().map(|x| map_f(*x)).collect(),
            UnOp::Filter { m, r } => xs.iter().copied().filter(|x| x.rem_euclid(m) != r).collect(),
            UnOp::Scan { seed } => {
                let mut acc = seed;
                xs.iter()
                    .map(|x| {
                        acc = acc.wrapping_add(*x);
                        acc
                    })
                    .collect()
            },
            UnOp::Take(n) => xs.iter().copied().take(n).collect(),
            UnOp::Skip(n) => xs.iter().copied().skip(n).collect(),
        }
    }
    pub fn apply(&self, src: Src<V>, calls: &Arc<AtomicUsize>) -> Src<V> {
        match *self {
            UnOp::Map => {
                let c = Arc::clone(calls);
                Arc::new(callbag::map(move |x: i64| {
                    c.fetch_add(1, Ordering::SeqCst);
                    map_f(x)
                })(src))
            },
            UnOp::Filter { m, r } => {
                let c = Arc::clone(calls);
                Arc::new(callbag::filter(move |x: &i64| {
                    c.fetch_add(1, Ordering::SeqCst);
                    x.rem_euclid(m) != r
                })(src))
            },
            UnOp::Scan { seed } => {
                let c = Arc::clone(calls);
                Arc::new(callbag::scan(
                    move |acc: i64, x: i64| {
                        c.fetch_add(1, Ordering::SeqCst);
                        acc.wrapping_add(x)
                    },
                    seed,
                )(src))
            },
            UnOp::Take(n) => Arc::new(callbag::take(n)(src)),
            UnOp::Skip(n) => Arc::new(callbag::skip(n)(src)),
        }
    }
}

pub fn map_f(x: i64) -> i64 {
    x.wrapping_mul(2).wrapping_add(1)
}

#[derive(Clone, Debug, PartialEq, Eq, Hash)]
pub enum Topo {
    Unary(UnOp),
    Merge(usize),
    /// merge!(s.clone(), s.clone(), others..): the first member value is listed twice in a row (n
    /// distinct puppets, n + 1 members)
    MergeDup(usize),
    Concat(usize),
    Combine(usize),
    /// number of inner sources the outer puppet carries
    Flatten(usize),
    /// flatten whose outer emits the *same* inner source value n times (a restart-on-trigger
    /// pattern): puppet 0 is the outer, puppet 1 the one inner, subscribed once per emission
    FlattenRepeat(usize),
    /// number of probes
    Share(usize),
    ForEach,
    /// from_iter over an instrumented iterator 0..len (None = unbounded)
    FromIter(Option<usize>),
    /// a composed tree (see `Node`)
    Tree(Node),
}

impl Topo {
    pub fn op_name(&self) -> String {
        match self {
            Topo::Unary(u) => u.name().into(),
            Topo::Merge(_) | Topo::MergeDup(_) => "merge".into(),
            Topo::Concat(_) => "concat".into(),
            Topo::Combine(_) => "combine".into(),
            Topo::Flatten(_) | Topo::FlattenRepeat(_) => "flatten".into(),
            Topo::Share(_) => "share".into(),
            Topo::ForEach => "for_each".into(),
            Topo::FromIter(_) => "from_iter".into(),
            Topo::Tree(_) => "tree".into(),
        }
    }
    pub fn describe(&self) -> String {
        match self {
            Topo::Unary(u) => u.describe(),
            Topo::Merge(n) => format!("merge!({} members)", n),
            Topo::MergeDup(n) => format!("merge!({} members, the first source value listed twice)", n + 1),
            Topo::Concat(n) => format!("concat!({} members)", n),
            Topo::Combine(n) => format!("combine!({} members)", n),
            Topo::Flatten(n) => format!("flatten(outer with {} inners)", n),
            Topo::FlattenRepeat(n) => format!("flatten(outer emitting the same inner source {} times)", n),
            Topo::Share(n) => format!("share({} sinks)", n),
            Topo::ForEach => "for_each".into(),
            Topo::FromIter(Some(n)) => format!("from_iter(0..{})", n),
            Topo::FromIter(None) => "from_iter(0..)".into(),
            Topo::Tree(n) => format!("tree:{}", n.describe()),
        }
    }
}

/// Composed topologies: every internal edge carries a tap.
#[derive(Clone, Debug, PartialEq, Eq, Hash)]
pub enum Node {
    Leaf,
    Un(UnOp, Box<Node>),
    Merge(Vec<Node>),
    Concat(Vec<Node>),
    /// combine!(a, b) followed by map(|(a, b)| a + b) so that the tree stays i64-typed
    Combine2(Box<Node>, Box<Node>),
    /// flatten over an outer puppet whose items are the given subtrees
    Flatten(Vec<Node>),
    Share(Box<Node>),
}

impl Node {
    pub fn describe(&self) -> String {
        match self {
            Node::Leaf => "P".into(),
            Node::Un(u, n) => format!("{}<{}>", u.describe(), n.describe()),
            Node::Merge(v) => format!("merge[{}]", v.iter().map(|n| n.describe()).collect::<Vec<_>>().join(",")),
            Node::Concat(v) => format!("concat[{}]", v.iter().map(|n| n.describe()).collect::<Vec<_>>().join(",")),
            Node::Combine2(a, b) => format!("combine[{},{}]", a.describe(), b.describe()),
            Node::Flatten(v) => format!("flatten[{}]", v.iter().map(|n| n.describe()).collect::<Vec<_>>().join(",")),
            Node::Share(n) => format!("share<{}>", n.describe()),
        }
    }
    pub fn n_leaves(&self) -> usize {
        match self {
            Node::Leaf => 1,
            Node::Un(_, n) | Node::Share(n) => n.n_leaves(),
            Node::Merge(v) | Node::Concat(v) => v.iter().map(|n| n.n_leaves()).sum(),
            Node::Combine2(a, b) => a.n_leaves() + b.n_leaves(),
            // the outer puppet plus the leaves of the inner trees
            Node::Flatten(v) => 1 + v.iter().map(|n| n.n_leaves()).sum::<usize>(),
        }
    }
    pub fn op_name(&self) -> &'static str {
        match self {
            Node::Leaf => "puppet",
            Node::Un(u, _) => u.name(),
            Node::Merge(_) => "merge",
            Node::Concat(_) => "concat",
            Node::Combine2(..) => "combine",
            Node::Flatten(_) => "flatten",
            Node::Share(_) => "share",
        }
    }
}

/// Where an operator instance of a composed topology is observed: a leaf puppet, a tap, or the probe.
#[derive(Clone, Copy, Debug, PartialEq, Eq)]
pub enum Link {
    Puppet(usize),
    Tap(usize),
    Probe,
    Unknown,
}

#[derive(Clone, Debug)]
pub enum OpKind {
    Un(UnOp),
    Merge,
    Concat,
    Combine2,
    /// flatten over the outer puppet with the given id; `inputs` are the inner sources in emission order
    Flatten(usize),
    Share,
}

/// One operator instance inside a tree, with the links on which its inputs and its output are observed.
#[derive(Clone, Debug)]
pub struct OpInst {
    pub kind: OpKind,
    pub inputs: Vec<Link>,
    pub output: Link,
}

/// What the oracles need to know about a built single-operator topology.
#[derive(Clone, Debug, Default)]
pub struct Info {
    /// member puppet ids in member order (merge / concat / combine), or [upstream] for unary/share
    pub members: Vec<usize>,
    /// flatten: outer puppet id and inner puppet ids in emission order
    pub outer: Option<usize>,
    pub inners: Vec<usize>,
    pub unop: Option<UnOp>,
    /// flatten: every emission of the outer is the same inner puppet (subscribed once per emission)
    pub repeat_inner: bool,
    /// composed topologies: every operator instance with its observation links
    pub ops: Vec<OpInst>,
}

pub struct Built {
    pub world: Arc<World>,
    pub topo: Topo,
    pub op: String,
    pub puppets: Vec<Box<dyn PuppetCtl>>,
    pub puppet_specs: Vec<PuppetSpec>,
    pub probes: Vec<Box<dyn ProbeCtl>>,
    pub probe_specs: Vec<ProbeSpec>,
    pub subscribe: Vec<Box<dyn Fn()>>,
    /// the same subscriptions as `subscribe`, callable from a source's stop hook
    pub attachers: Vec<Arc<dyn Fn() + Send + Sync>>,
    pub info: Info,
    /// number of times the user closure (map f / filter predicate / scan reducer) ran
    pub closure_calls: Arc<AtomicUsize>,
    /// for_each: values passed to f
    pub foreach_seen: Arc<std::sync::Mutex<Vec<i64>>>,
}

impl Drop for Built {
    fn drop(&mut self) {
        for p in self.puppets.iter() {
            p.teardown();
        }
        for p in self.probes.iter() {
            p.teardown();
        }
        self.subscribe.clear();
        self.attachers.clear();
        self.world.teardown();
    }
}

pub fn items_for(id: usize, n: usize) -> Vec<(Val, V)> {
    (0..n).map(|i| {
        let v = (id as i64) * 1000 + i as i64;
        (Val::one(v), v)
    })
    .collect()
}

thread_local! {
    /// filled by mk_probes, collected by build() (keeps mk_probes' signature as it is)
    static ATTACHERS: std::cell::RefCell<Vec<Arc<dyn Fn() + Send + Sync>>> = std::cell::RefCell::new(vec![]);
}

fn mk_probes<T: Repr + Send + Sync + 'static>(
    world: &Arc<World>,
    label: &str,
    output: &Src<T>,
    specs: &[ProbeSpec],
    probes: &mut Vec<Box<dyn ProbeCtl>>,
    subscribe: &mut Vec<Box<dyn Fn()>>,
) {
    let mut ps: Vec<Arc<Probe<T>>> = vec![];
    for (i, s) in specs.iter().enumerate() {
        let p = Probe::<T>::new(world, i, label, s.clone());
        probes.push(Box::new(Arc::clone(&p)));
        ps.push(Arc::clone(&p));
        let out = Arc::clone(output);
        {
            let p = Arc::clone(&p);
            let out = Arc::clone(&out);
            ATTACHERS.with(|a| a.borrow_mut().push(Arc::new(move || p.subscribe(&out))));
        }
        subscribe.push(Box::new(move || p.subscribe(&out)));
    }
    // attach- / poke-from-inside-a-handler wiring
    for (i, s) in specs.iter().enumerate() {
        let attach = s.attach.filter(|(_, _, j)| *j < ps.len() && *j != i);
        let poke = s.poke.filter(|(_, _, j, _)| *j < ps.len() && *j != i);
        if attach.is_none() && poke.is_none() {
            continue;
        }
        let a_other = attach.map(|(_, _, j)| Arc::clone(&ps[j]));
        let p_other = poke.map(|(_, _, j, _)| Arc::clone(&ps[j]));
        let out = Arc::clone(output);
        *ps[i].hook.lock().unwrap() = Some(Arc::new(move |t: u8, kk: usize| {
            if let (Some((trigger, k, _)), Some(other)) = (attach, a_other.as_ref()) {
                if t == trigger && (t != 1 || kk == k) {
                    other.subscribe(&out);
                }
            }
            if let (Some((trigger, k, _, what)), Some(other)) = (poke, p_other.as_ref()) {
                if t == trigger && (t != 1 || kk == k) {
                    other.act(what);
                }
            }
        }));
    }
}

/// sources that react to being told to stop (PuppetSpec::on_stop)
fn wire_stop_hooks(puppets: &[Box<dyn PuppetCtl>], attachers: &[Arc<dyn Fn() + Send + Sync>]) {
    for p in puppets.iter() {
        if let Some((2, j)) = p.on_stop() {
            // told to stop, the source lets another consumer (probe j) subscribe the same output
            if let Some(a) = attachers.get(j) {
                let a = Arc::clone(a);
                p.set_stop_hook(Arc::new(move || a()));
            }
            continue;
        }
        if let Some((what, j)) = p.on_stop() {
            if let Some(other) = puppets.iter().find(|q| q.id() == j && q.id() != p.id()) {
                let other = other.clone_ctl();
                let second = p.on_stop2().and_then(|(w2, j2)| {
                    puppets.iter().find(|q| q.id() == j2 && q.id() != p.id()).map(|q| (w2, q.clone_ctl()))
                });
                p.set_stop_hook(Arc::new(move || {
                    if what == 0 {
                        other.greet_all();
                    } else if what == 3 {
                        other.finish_all();
                    } else {
                        other.emit_all();
                    }
                    if let Some((w2, o2)) = &second {
                        if *w2 == 0 {
                            o2.greet_all();
                        } else {
                            o2.emit_all();
                        }
                    }
                }));
            }
        }
        if let Some(j) = p.on_pull() {
            if let Some(other) = puppets.iter().find(|q| q.id() == j && q.id() != p.id()) {
                let other = other.clone_ctl();
                p.set_pull_hook(Arc::new(move || other.greet_all()));
            }
        }
    }
}

/// Build a topology. `pspecs[i]` / `lens[i]` describe puppet i; for Flatten puppet 0 is the outer
/// and puppets 1.. are the inners; for Tree puppets are the leaves in left-to-right order (an
/// inner Flatten node takes one puppet for its outer first).
pub fn build(topo: &Topo, pspecs: &[PuppetSpec], lens: &[usize], probe_specs: &[ProbeSpec]) -> Built {
    ATTACHERS.with(|a| a.borrow_mut().clear());
    let world = World::new();
    let op = topo.op_name();
    let mut puppets: Vec<Box<dyn PuppetCtl>> = vec![];
    let mut probes: Vec<Box<dyn ProbeCtl>> = vec![];
    let mut subscribe: Vec<Box<dyn Fn()>> = vec![];
    let mut info = Info::default();
    let closure_calls = Arc::new(AtomicUsize::new(0));
    let foreach_seen = Arc::new(std::sync::Mutex::new(vec![]));
    let mk = |id: usize, feeds: &str| -> Arc<Puppet<V>> {
        Puppet::new(&world, id, feeds, pspecs[id].clone(), items_for(id, lens[id]))
    };
    match topo {
        Topo::Unary(u) => {
            let p = mk(0, &op);
            puppets.push(Box::new(Arc::clone(&p)));
            info.members = vec![0];
            info.unop = Some(*u);
            let out = u.apply(p.source(), &closure_calls);
            mk_probes(&world, &op, &out, probe_specs, &mut probes, &mut subscribe);
        },
        Topo::Merge(n) | Topo::Concat(n) | Topo::MergeDup(n) => {
            let mut srcs = vec![];
            for i in 0..*n {
                let p = mk(i, &op);
                let src = p.source();
                if i == 0 && matches!(topo, Topo::MergeDup(_)) {
                    // the very same Arc, twice
                    srcs.push(Arc::clone(&src));
                    info.members.push(0);
                }
                srcs.push(src);
                puppets.push(Box::new(p));
                info.members.push(i);
            }
            let out: Src<V> = if matches!(topo, Topo::Merge(_) | Topo::MergeDup(_)) {
                Arc::new(callbag::merge(srcs.into_boxed_slice()))
            } else {
                Arc::new(callbag::concat(srcs.into_boxed_slice()))
            };
            mk_probes(&world, &op, &out, probe_specs, &mut probes, &mut subscribe);
        },
        Topo::Combine(n) => {
            let mut ps = vec![];
            for i in 0..*n {
                let p = mk(i, &op);
                ps.push(Arc::clone(&p));
                puppets.push(Box::new(p));
                info.members.push(i);
            }
            match n {
                1 => {
                    let out: Src<(V,)> = Arc::new(callbag::combine!(ps[0].source()));
                    mk_probes(&world, &op, &out, probe_specs, &mut probes, &mut subscribe);
                },
                2 => {
                    let out: Src<(V, V)> = Arc::new(callbag::combine!(ps[0].source(), ps[1].source()));
                    mk_probes(&world, &op, &out, probe_specs, &mut probes, &mut subscribe);
                },
                _ => {
                    let out: Src<(V, V, V)> =
                        Arc::new(callbag::combine!(ps[0].source(), ps[1].source(), ps[2].source()));
                    mk_probes(&world, &op, &out, probe_specs, &mut probes, &mut subscribe);
                },
            }
        },
        Topo::Flatten(n) => {
            let mut inner_items: Vec<(Val, Src<V>)> = vec![];
            let mut inner_boxes: Vec<Box<dyn PuppetCtl>> = vec![];
            for i in 1..=*n {
                let p = mk(i, &op);
                inner_items.push((Val::one(i as i64), p.source()));
                inner_boxes.push(Box::new(p));
                info.inners.push(i);
            }
            let outer: Arc<Puppet<Src<V>>> = Puppet::new(&world, 0, &op, pspecs[0].clone(), inner_items);
            info.outer = Some(0);
            let out: Src<V> = Arc::new(callbag::flatten(outer.source()));
            puppets.push(Box::new(outer));
            puppets.extend(inner_boxes);
            mk_probes(&world, &op, &out, probe_specs, &mut probes, &mut subscribe);
        },
        Topo::FlattenRepeat(n) => {
            let p = mk(1, &op);
            let src = p.source();
            let inner_items: Vec<(Val, Src<V>)> = (1..=*n).map(|k| (Val::one(k as i64), Arc::clone(&src))).collect();
            info.inners = (1..=*n).collect();
            info.repeat_inner = true;
            let outer: Arc<Puppet<Src<V>>> = Puppet::new(&world, 0, &op, pspecs[0].clone(), inner_items);
            info.outer = Some(0);
            let out: Src<V> = Arc::new(callbag::flatten(outer.source()));
            puppets.push(Box::new(outer));
            puppets.push(Box::new(p));
            mk_probes(&world, &op, &out, probe_specs, &mut probes, &mut subscribe);
        },
        Topo::Share(_) => {
            let p = mk(0, &op);
            puppets.push(Box::new(Arc::clone(&p)));
            info.members = vec![0];
            let out: Src<V> = Arc::new(callbag::share(p.source()));
            mk_probes(&world, &op, &out, probe_specs, &mut probes, &mut subscribe);
        },
        Topo::ForEach => {
            // one for_each value, applied to one source per puppet (C13 applies it to two)
            let seen = Arc::clone(&foreach_seen);
            // puppets that are fed back from inside the callback (PuppetSpec::feedback)
            let fed: Arc<std::sync::Mutex<Vec<Box<dyn PuppetCtl>>>> = Arc::new(std::sync::Mutex::new(vec![]));
            let fed2 = Arc::clone(&fed);
            let fb: Vec<Option<usize>> = pspecs.iter().map(|s| s.feedback).collect();
            let fe: std::rc::Rc<Box<dyn Fn(Src<V>)>> = std::rc::Rc::new(callbag::for_each(move |x: i64| {
                seen.lock().unwrap().push(x);
                let (id, k) = ((x / 1000) as usize, (x % 1000) as usize);
                if fb.get(id).copied().flatten() == Some(k) {
                    let p = fed2.lock().unwrap().iter().find(|p| p.id() == id).map(|p| p.clone_ctl());
                    if let Some(p) = p {
                        p.emit_all();
                    }
                }
            }));
            for i in 0..pspecs.len() {
                let p = mk(i, &op);
                puppets.push(Box::new(Arc::clone(&p)));
                fed.lock().unwrap().push(Box::new(Arc::clone(&p)));
                info.members.push(i);
                let src = p.source();
                let w = Arc::clone(&world);
                let fe = std::rc::Rc::clone(&fe);
                subscribe.push(Box::new(move || {
                    w.set_owner(i as i32);
                    fe(Arc::clone(&src));
                }));
            }
        },
        Topo::FromIter(len) => {
            let it = crate::pull::CountIter::new(0, 0, *len, Some(&world));
            let out: Src<V> = Arc::new(callbag::from_iter(it));
            mk_probes(&world, &op, &out, probe_specs, &mut probes, &mut subscribe);
        },
        Topo::Tree(node) => {
            let mut next_puppet = 0usize;
            let mut next_tap = 0usize;
            let mut ops: Vec<OpInst> = vec![];
            let (out, root) = build_node(
                &world,
                node,
                "probe",
                pspecs,
                lens,
                &mut next_puppet,
                &mut next_tap,
                &mut puppets,
                &closure_calls,
                &mut ops,
            );
            if let Some(r) = root {
                ops[r].output = Link::Probe;
            }
            info.ops = ops;
            let label = node.op_name();
            mk_probes(&world, label, &out, probe_specs, &mut probes, &mut subscribe);
        },
    }
    puppets.sort_by_key(|p| p.id());
    let attachers: Vec<Arc<dyn Fn() + Send + Sync>> = ATTACHERS.with(|a| std::mem::take(&mut *a.borrow_mut()));
    wire_stop_hooks(&puppets, &attachers);
    // consumers that feed the source they listen to
    for pr in probes.iter() {
        if let Some((trigger, k, pid)) = pr.feed() {
            if let Some(target) = puppets.iter().find(|q| q.id() == pid) {
                let target = target.clone_ctl();
                pr.set_hook2(Arc::new(move |t: u8, kk: usize| {
                    if t == trigger && (t != 1 || kk == k) {
                        target.emit_all();
                    }
                }));
            }
        }
    }
    Built {
        world,
        topo: topo.clone(),
        op,
        puppets,
        puppet_specs: pspecs.to_vec(),
        probes,
        probe_specs: probe_specs.to_vec(),
        subscribe,
        attachers,
        info,
        closure_calls,
        foreach_seen,
    }
}

#[allow(clippy::too_many_arguments)]
fn build_node(
    world: &Arc<World>,
    node: &Node,
    below: &str,
    pspecs: &[PuppetSpec],
    lens: &[usize],
    next_puppet: &mut usize,
    next_tap: &mut usize,
    puppets: &mut Vec<Box<dyn PuppetCtl>>,
    calls: &Arc<AtomicUsize>,
    ops: &mut Vec<OpInst>,
) -> (Src<V>, Option<usize>) {
    let me = node.op_name();
    // builds a child, wraps it in a tap unless it is a leaf, and returns the link on which the
    // child's output (= this node's input) is observed
    let mut child = |n: &Node,
                     next_puppet: &mut usize,
                     next_tap: &mut usize,
                     puppets: &mut Vec<Box<dyn PuppetCtl>>,
                     ops: &mut Vec<OpInst>|
     -> (Src<V>, Link) {
        let leaf_id = *next_puppet;
        let (s, idx) = build_node(world, n, me, pspecs, lens, next_puppet, next_tap, puppets, calls, ops);
        if matches!(n, Node::Leaf) {
            // the puppet's own edge already observes this link
            (s, Link::Puppet(leaf_id))
        } else {
            let t = *next_tap;
            *next_tap += 1;
            if let Some(i) = idx {
                ops[i].output = Link::Tap(t);
            }
            (tap(world, t, &format!("t{}:{}>{}", t, n.op_name(), me), n.op_name(), me, s), Link::Tap(t))
        }
    };
    let _ = below;
    match node {
        Node::Leaf => {
            let id = *next_puppet;
            *next_puppet += 1;
            let p: Arc<Puppet<V>> = Puppet::new(world, id, below, pspecs[id].clone(), items_for(id, lens[id]));
            let s = p.source();
            puppets.push(Box::new(p));
            (s, None)
        },
        Node::Un(u, n) => {
            let (s, l) = child(n, next_puppet, next_tap, puppets, ops);
            ops.push(OpInst { kind: OpKind::Un(*u), inputs: vec![l], output: Link::Unknown });
            (u.apply(s, calls), Some(ops.len() - 1))
        },
        Node::Merge(v) => {
            let mut srcs: Vec<Src<V>> = vec![];
            let mut links = vec![];
            for n in v {
                let (s, l) = child(n, next_puppet, next_tap, puppets, ops);
                srcs.push(s);
                links.push(l);
            }
            ops.push(OpInst { kind: OpKind::Merge, inputs: links, output: Link::Unknown });
            (Arc::new(callbag::merge(srcs.into_boxed_slice())), Some(ops.len() - 1))
        },
        Node::Concat(v) => {
            let mut srcs: Vec<Src<V>> = vec![];
            let mut links = vec![];
            for n in v {
                let (s, l) = child(n, next_puppet, next_tap, puppets, ops);
                srcs.push(s);
                links.push(l);
            }
            ops.push(OpInst { kind: OpKind::Concat, inputs: links, output: Link::Unknown });
            (Arc::new(callbag::concat(srcs.into_boxed_slice())), Some(ops.len() - 1))
        },
        Node::Combine2(a, b) => {
            let (sa, la) = child(a, next_puppet, next_tap, puppets, ops);
            let (sb, lb) = child(b, next_puppet, next_tap, puppets, ops);
            let c: Src<(V, V)> = Arc::new(callbag::combine!(sa, sb));
            let t = *next_tap;
            *next_tap += 1;
            ops.push(OpInst { kind: OpKind::Combine2, inputs: vec![la, lb], output: Link::Tap(t) });
            let c = tap(world, t, &format!("t{}:combine>map", t), "combine", "map", c);
            // the adapter map((a, b) -> a + b) is not judged (it has no counterpart among the UnOps)
            (Arc::new(callbag::map(|(a, b): (V, V)| a.wrapping_add(b))(c)), None)
        },
        Node::Flatten(v) => {
            let id = *next_puppet;
            *next_puppet += 1;
            // placeholder so that the outer keeps its position in the puppet list
            let slot = puppets.len();
            let mut items: Vec<(Val, Src<V>)> = vec![];
            let mut links = vec![];
            let mut inner_puppets: Vec<Box<dyn PuppetCtl>> = vec![];
            for (i, n) in v.iter().enumerate() {
                let (s, l) = child(n, next_puppet, next_tap, &mut inner_puppets, ops);
                items.push((Val::one(i as i64), s));
                links.push(l);
            }
            let outer: Arc<Puppet<Src<V>>> = Puppet::new(world, id, "flatten", pspecs[id].clone(), items);
            let s = outer.source();
            puppets.insert(slot, Box::new(outer));
            puppets.extend(inner_puppets);
            ops.push(OpInst { kind: OpKind::Flatten(id), inputs: links, output: Link::Unknown });
            (Arc::new(callbag::flatten(s)), Some(ops.len() - 1))
        },
        Node::Share(n) => {
            let (s, l) = child(n, next_puppet, next_tap, puppets, ops);
            ops.push(OpInst { kind: OpKind::Share, inputs: vec![l], output: Link::Unknown });
            (Arc::new(callbag::share(s)), Some(ops.len() - 1))
        },
    }
}

/// Random puppet spec respecting the environment model of DESIGN.md section 2.1.
pub fn gen_puppet_spec(c: &mut Chooser, allow_late: bool, modes: &[Mode], fins: &[Fin]) -> PuppetSpec {
    let mode = modes[c.choose(modes.len())];
    let late = allow_late && c.chance(1, 3);
    let mut fin = fins[c.choose(fins.len())];
    if mode != Mode::Listen && fin == Fin::Never {
        fin = Fin::End;
    }
    let burst = if mode == Mode::Listen && c.chance(1, 3) { 1 + c.choose(3) } else { 0 };
    PuppetSpec { mode, late, fin, burst, eager_end: false, per_pull: 1, on_stop: None, on_stop2: None, feedback: None, on_pull: None, backlog: false }
}
