//! E1: sequential driver. Generates a case (topology, peers, schedule), executes it against the
//! real crate one env step at a time, and evaluates the universal monitors and the per-property
//! oracles after every step.

use crate::oracles;
use crate::probe::{ProbeSpec, React};
use crate::puppet::{Fin, Mode, PuppetSpec};
use crate::rng::Chooser;
use crate::topo::{build, gen_puppet_spec, Built, Node, Topo, UnOp};
use crate::world::{Dir, Kind, Role, Violation};
use std::panic::{catch_unwind, AssertUnwindSafe};

#[derive(Clone, Debug)]
pub struct CaseSpec {
    pub topo: Topo,
    pub pspecs: Vec<PuppetSpec>,
    pub lens: Vec<usize>,
    pub probe_specs: Vec<ProbeSpec>,
    pub max_steps: usize,
    pub drain: bool,
    /// C14 environment: probes never dispose and spend at most one Pull per message received
    pub credit_env: bool,
    /// C14 only: Pulls the sink may have outstanding beyond the one-per-message credit (a sink that
    /// asks for a few items ahead); only over operators that keep no demand state of their own
    pub extra_credit: u32,
    /// weights for top-level actions: [puppet step, puppet greet, probe pull, probe terminate, probe error, subscribe]
    pub weights: [u32; 6],
}

#[derive(Clone, Debug, PartialEq, Eq)]
pub enum Act {
    Subscribe(usize),
    ProbeAct(usize, React),
    PuppetStep(usize, usize),
    PuppetGreet(usize, usize),
}

impl Act {
    pub fn show(&self) -> String {
        match self {
            Act::Subscribe(p) => format!("subscribe S{}", p),
            Act::ProbeAct(p, r) => format!("S{} {:?}", p, r),
            Act::PuppetStep(p, k) => format!("P{}#{} step", p, k),
            Act::PuppetGreet(p, k) => format!("P{}#{} greet", p, k),
        }
    }
}

pub struct CaseResult {
    pub built: Built,
    pub steps: Vec<Act>,
    pub violations: Vec<Violation>,
    pub harness_faults: Vec<String>,
    pub crate_panic: Option<String>,
    pub exercised: std::collections::BTreeMap<&'static str, u64>,
}

pub const ALL_OPS: &[&str] = &[
    "map", "filter", "scan", "take", "skip", "merge", "concat", "combine", "flatten", "share", "for_each", "tree",
    "from_iter",
];

fn gen_unop(c: &mut Chooser, which: &str) -> UnOp {
    match which {
        "map" => UnOp::Map,
        "filter" => {
            let m = 2 + c.choose(2) as i64;
            UnOp::Filter { m, r: c.choose(m as usize) as i64 }
        },
        "scan" => UnOp::Scan { seed: [0i64, 5, 100][c.choose(3)] },
        // now and then a count at or beyond the width of a narrower integer type
        "take" if c.chance(1, 10) => UnOp::Take(crate::pull::boundary_count(c)),
        "take" => UnOp::Take(1 + c.choose(4)),
        // take(0): greeted, never completes by itself, drops all data (only where the property
        // does not say n >= 1)
        "take0" => UnOp::Take(c.choose(5)),
        _ if c.chance(1, 8) => UnOp::Skip(crate::pull::boundary_count(c)),
        _ => UnOp::Skip(c.choose(4)),
    }
}

pub fn gen_probe_spec(c: &mut Chooser, allow_dispose: bool) -> ProbeSpec {
    let fam = c.choose(6);
    match fam {
        0 => ProbeSpec::passive(),
        1 => ProbeSpec::puller(),
        2 if allow_dispose => {
            // dispose at exactly position k, pull or stay passive before
            let k = c.choose(5);
            let base = if c.chance(1, 2) { React::Pull } else { React::Nothing };
            let mut policy = vec![base; k];
            policy.push(
                [React::Terminate, React::Terminate, React::Error, React::PullTerminate, React::PullError][c.choose(5)],
            );
            ProbeSpec { policy, rest: base, pull_cap: 1000, attach: None, poke: None, feed: None, only_attached: false, late_pulls: false, drop_talkback: false, late_pull_nested: false }
        },
        _ => {
            let n = 1 + c.choose(6);
            let mut policy = vec![];
            for _ in 0..n {
                let r = if allow_dispose {
                    [
                        React::Nothing,
                        React::Nothing,
                        React::Nothing,
                        React::Pull,
                        React::Pull,
                        React::Pull,
                        React::Pull2,
                        React::Terminate,
                        React::Error,
                        React::PullTerminate,
                        React::PullError,
                    ][c.choose(11)]
                } else {
                    [React::Nothing, React::Pull, React::Pull][c.choose(3)]
                };
                policy.push(r);
            }
            let rest = [React::Nothing, React::Pull][c.choose(2)];
            ProbeSpec { policy, rest, pull_cap: 1000, attach: None, poke: None, feed: None, only_attached: false, late_pulls: false, drop_talkback: false, late_pull_nested: false }
        },
    }
}

const ALL_MODES: &[Mode] = &[Mode::Listen, Mode::PullSync, Mode::PullDeferred];
const ALL_FINS: &[Fin] = &[Fin::End, Fin::End, Fin::Err, Fin::Never];

/// a share node makes the subscriptions of a tree dependent on purpose
fn tree_has_share(n: &Node) -> bool {
    match n {
        Node::Share(_) => true,
        Node::Leaf => false,
        Node::Un(_, x) => tree_has_share(x),
        Node::Merge(v) | Node::Concat(v) | Node::Flatten(v) => v.iter().any(tree_has_share),
        Node::Combine2(a, b) => tree_has_share(a) || tree_has_share(b),
    }
}

fn gen_node_no_share(c: &mut Chooser, depth: usize) -> Node {
    fn strip(n: Node) -> Node {
        match n {
            Node::Share(x) => strip(*x),
            Node::Un(u, x) => Node::Un(u, Box::new(strip(*x))),
            Node::Merge(v) => Node::Merge(v.into_iter().map(strip).collect()),
            Node::Concat(v) => Node::Concat(v.into_iter().map(strip).collect()),
            Node::Combine2(a, b) => Node::Combine2(Box::new(strip(*a)), Box::new(strip(*b))),
            Node::Flatten(v) => Node::Flatten(v.into_iter().map(strip).collect()),
            Node::Leaf => Node::Leaf,
        }
    }
    strip(gen_node(c, depth))
}

fn gen_node(c: &mut Chooser, depth: usize) -> Node {
    if depth == 0 {
        return Node::Leaf;
    }
    match c.choose(10) {
        0 | 1 | 2 => {
            let which = ["map", "filter", "scan", "take", "skip"][c.choose(5)];
            Node::Un(gen_unop(c, which), Box::new(gen_node(c, depth - 1)))
        },
        3 | 4 => {
            let n = 1 + c.choose(3);
            Node::Merge((0..n).map(|_| gen_node(c, depth - 1)).collect())
        },
        5 | 6 => {
            let n = 1 + c.choose(3);
            Node::Concat((0..n).map(|_| gen_node(c, depth - 1)).collect())
        },
        7 => Node::Combine2(Box::new(gen_node(c, depth - 1)), Box::new(gen_node(c, depth - 1))),
        8 => {
            let n = c.choose(3);
            Node::Flatten((0..n).map(|_| gen_node(c, depth - 1)).collect())
        },
        _ => Node::Share(Box::new(gen_node(c, depth - 1))),
    }
}

/// Trees for the C14 environment. C14 presupposes upstreams that answer each Pull with one Data
/// *or* their end and emit nothing unrequested. take(n) completes right after its nth datum, i.e.
/// its output sends an unrequested end; it is therefore a legal last stage but not a legal
/// member of concat! / inner of flatten in this environment (`allow_take` = false below them).
fn gen_node_pull(c: &mut Chooser, depth: usize, allow_take: bool) -> Node {
    if depth == 0 {
        return Node::Leaf;
    }
    match c.choose(8) {
        0 | 1 | 2 | 3 => {
            let which = if allow_take {
                ["map", "filter", "scan", "take", "skip"][c.choose(5)]
            } else {
                ["map", "filter", "scan", "skip"][c.choose(4)]
            };
            Node::Un(gen_unop(c, which), Box::new(gen_node_pull(c, depth - 1, allow_take)))
        },
        4 | 5 => {
            let n = 1 + c.choose(3);
            Node::Concat((0..n).map(|_| gen_node_pull(c, depth - 1, false)).collect())
        },
        _ => {
            let n = c.choose(3);
            Node::Flatten((0..n).map(|_| gen_node_pull(c, depth - 1, false)).collect())
        },
    }
}

/// Generate a case for operator `op` (one of ALL_OPS).
pub fn gen_case(c: &mut Chooser, op: &str, prop: &str) -> CaseSpec {
    // "merge+deep": larger configurations (more members, longer scripts, longer schedules, deeper
    // trees); "merge+wide": configurations beyond every small bound (dozens of members, hundreds
    // of inner sources or items, long synchronous pull chains)
    if op == "merge+huge" {
        return gen_huge_merge(c);
    }
    if let Some(base) = op.strip_suffix("+deep") {
        gen_case_full(c, base, prop, false, true, false)
    } else if let Some(base) = op.strip_suffix("+wide") {
        gen_case_full(c, base, prop, false, true, true)
    } else {
        gen_case_full(c, op, prop, false, false, false)
    }
}

/// merge! of more members than a 16-bit counter can count: quiet listenable members (a few of them
/// with one or two items), a sink that pulls once when greeted, a handful of driver steps
fn gen_huge_merge(c: &mut Chooser) -> CaseSpec {
    let n = 65_537 + c.choose(200);
    let mut pspecs = vec![];
    let mut lens = vec![];
    let talkative: Vec<usize> = (0..4).map(|_| c.choose(n)).collect();
    for i in 0..n {
        pspecs.push(PuppetSpec { mode: Mode::Listen, late: false, fin: Fin::Never, burst: 0, eager_end: false, per_pull: 1, on_stop: None, on_stop2: None, feedback: None, on_pull: None, backlog: false });
        lens.push(if talkative.contains(&i) { 1 + c.choose(2) } else { 0 });
    }
    let probe = ProbeSpec { policy: vec![if c.chance(1, 2) { React::Pull } else { React::Nothing }], rest: React::Nothing, pull_cap: 4, attach: None, poke: None, feed: None, only_attached: false, late_pulls: false, drop_talkback: false, late_pull_nested: false };
    CaseSpec { topo: Topo::Merge(n), pspecs, lens, probe_specs: vec![probe], max_steps: 4 + c.choose(6), drain: false, credit_env: false, extra_credit: 0, weights: [8, 5, 2, 1, 1, 4] }
}

pub fn gen_case_sized(c: &mut Chooser, op: &str, prop: &str, small: bool) -> CaseSpec {
    gen_case_full(c, op, prop, small, false, false)
}

/// `small`: tiny configurations for the schedule enumerator (at most 2 members / inners / sinks,
/// scripts of at most 2 items, reaction tables of at most 3 entries, at most 5 driver steps)
/// `wide` (implies `deep`): sizes beyond every small bound - 60..90 merge members, 8..28 concat
/// members, 250..310 inner sources, scripts of a hundred items and more, a dozen share sinks
pub fn gen_case_full(c: &mut Chooser, op: &str, prop: &str, small: bool, deep: bool, wide: bool) -> CaseSpec {
    let credit = prop == "C14";
    let indep = prop == "C13";
    let mut allow_late = false;
    let mut n_probes = 1;
    let topo = match op {
        "take" if matches!(prop, "C01" | "C02" | "C03" | "C04" | "C05" | "C13" | "C17" | "C20") => Topo::Unary(gen_unop(c, "take0")),
        "map" | "filter" | "scan" | "take" | "skip" => Topo::Unary(gen_unop(c, op)),
        "merge" if !small && !wide && matches!(prop, "C01" | "C02" | "C03" | "C04" | "C05" | "C08" | "C17") && c.chance(1, 10) => {
            allow_late = true;
            Topo::MergeDup(1 + c.choose(3))
        },
        "merge" => {
            allow_late = true;
            if wide {
                Topo::Merge(60 + c.choose(90))
            } else {
                Topo::Merge(if c.chance(1, 12) { 0 } else { 1 + c.choose(if small { 2 } else if deep { 6 } else { 4 }) })
            }
        },
        "concat" if wide => Topo::Concat(8 + c.choose(20)),
        "concat" => Topo::Concat(if c.chance(1, 12) { 0 } else { 1 + c.choose(if small { 2 } else if deep { 6 } else { 4 }) }),
        "combine" => Topo::Combine(1 + c.choose(if small { 2 } else { 3 })),
        "flatten" if wide && c.chance(1, 4) => Topo::FlattenRepeat(250 + c.choose(60)),
        "flatten" if wide => Topo::Flatten(250 + c.choose(60)),
        "flatten" if !small && c.chance(1, 8) => Topo::FlattenRepeat(2 + c.choose(3)),
        "flatten" => Topo::Flatten(c.choose(if small { 3 } else if deep { 8 } else { 5 })),
        "share" => {
            n_probes = if wide { 4 + c.choose(9) } else { 1 + c.choose(if small { 2 } else { 3 }) };
            Topo::Share(n_probes)
        },
        "for_each" => {
            n_probes = 0;
            Topo::ForEach
        },
        "from_iter" if wide => Topo::FromIter(if c.chance(1, 4) { None } else { Some(100 + c.choose(300)) }),
        "from_iter" => Topo::FromIter([Some(0), Some(1), Some(2), Some(3), Some(6), None][c.choose(6)]),
        _ => {
            let d = if small { 1 } else if deep { 2 + c.choose(3) } else { 1 + c.choose(3) };
            if !small && !indep && !credit && c.chance(1, 4) {
                // an operator that completes its sink by itself on top of the tree: whatever the
                // subtree still sends after being disposed becomes visible at the sink
                let n = 1 + c.choose(3);
                Topo::Tree(Node::Un(UnOp::Take(n), Box::new(gen_node(c, d))))
            } else if indep {
                Topo::Tree(gen_node_no_share(c, d))
            } else if credit {
                Topo::Tree(gen_node_pull(c, d, true))
            } else {
                Topo::Tree(gen_node(c, d))
            }
        },
    };
    // deep configurations: larger counts for take / skip as well
    let topo = match topo {
        Topo::Unary(UnOp::Take(n)) if deep && n > 0 && n < 200 => Topo::Unary(UnOp::Take(1 + c.choose(9))),
        Topo::Unary(UnOp::Skip(n)) if deep && n < 200 => Topo::Unary(UnOp::Skip(c.choose(9))),
        t => t,
    };
    if credit {
        allow_late = false;
    }
    // C17 judges panics only, so its environment can be wider than that of C01-C16: members /
    // inners / upstreams of every operator may greet late (a late-greeting source is conformant).
    // Exception: the upstream of share (observation O2 in DESIGN.md: the unchanged share panics
    // when a second sink acts before a late upstream has greeted; outside every quantifier).
    // CBVERIF_LATE_ALL=1 lifts the exception (experiment only, not used by a registered check).
    if prop == "C17" && !matches!(topo, Topo::Tree(_)) {
        // (share's upstream too, since fix N: before it, the unchanged share panicked when a second
        // sink acted before a late upstream had greeted - observation O2 in DESIGN.md)
        allow_late = true;
    }
    if matches!(prop, "C01" | "C02" | "C03") && matches!(topo, Topo::Share(_)) {
        // a shared source whose upstream greets late (share over a merge! of late members): every
        // participant is conformant, and the edge rules C01-C03 must hold for the sinks all the same
        allow_late = true;
    }
    if indep && !matches!(topo, Topo::Share(_) | Topo::ForEach) {
        n_probes = 2;
    }
    if matches!(prop, "C08" | "C09" | "C10" | "C11")
        && matches!(topo, Topo::Merge(_) | Topo::Concat(_) | Topo::Combine(_) | Topo::Flatten(_) | Topo::FlattenRepeat(_))
        && !small
        && c.chance(1, 4)
    {
        // the same output value subscribed twice: every subscription must satisfy the statement
        n_probes = 2;
    }
    if matches!(prop, "C01" | "C02" | "C03" | "C04" | "C05" | "C17")
        && !matches!(topo, Topo::Share(_) | Topo::ForEach)
        && !matches!(&topo, Topo::Tree(n) if tree_has_share(n))
        && !small
        && c.chance(1, 5)
    {
        // the universal monitors are per edge: a second subscription of the same output costs nothing
        n_probes = 2;
    }
    if credit && !matches!(topo, Topo::Share(_) | Topo::ForEach) && !small && c.chance(1, 5) {
        // a second sink of the same output must have its Pulls answered just the same
        n_probes = 2;
    }
    if prop == "C15" && matches!(topo, Topo::FromIter(_)) && !small && c.chance(1, 3) {
        // the same from_iter value subscribed twice (each subscription iterates its own clone)
        n_probes = 2;
    }
    if prop == "C07" && matches!(topo, Topo::Unary(_)) && c.chance(1, 3) {
        // the same output value subscribed twice: "a sink" means every sink
        n_probes = 2;
    }
    let n_puppets = match &topo {
        Topo::ForEach if indep => 2,
        Topo::Unary(_) | Topo::Share(_) | Topo::ForEach => 1,
        Topo::Merge(n) | Topo::Concat(n) | Topo::Combine(n) | Topo::MergeDup(n) => *n,
        Topo::Flatten(n) => 1 + n,
        Topo::FlattenRepeat(_) => 2,
        Topo::Tree(n) => n.n_leaves(),
        Topo::FromIter(_) => 0,
    };
    let mut pspecs = vec![];
    let mut lens = vec![];
    // wide fan-ins: half of the time every member is of the same kind (e.g. all answer inside the
    // Pull, so that one member's end starts the next from inside the previous one's, dozens deep)
    let many = wide && matches!(topo, Topo::Merge(_) | Topo::Concat(_) | Topo::Flatten(_) | Topo::FlattenRepeat(_));
    let homogeneous: Option<Mode> = if many && c.chance(1, 2) {
        // (the C14 environment has pullable upstreams only)
        Some(if credit { [Mode::PullSync, Mode::PullDeferred][c.choose(2)] } else { ALL_MODES[c.choose(3)] })
    } else {
        None
    };
    let fins: &[Fin] = if prop == "C05" { &[Fin::End, Fin::Err, Fin::Err, Fin::Never] } else { ALL_FINS };
    for i in 0..n_puppets {
        let modes: &[Mode] = match &topo {
            // for_each pulls by itself; every mode is fine
            _ => ALL_MODES,
        };
        let mut s = if credit {
            gen_puppet_spec(c, false, &[Mode::PullSync, Mode::PullDeferred], &[Fin::End])
        } else {
            gen_puppet_spec(c, allow_late, modes, fins)
        };
        if many {
            // with dozens of members a failing one in four would end every history at once
            if s.fin == Fin::Err && !c.chance(1, 12) {
                s.fin = Fin::End;
            }
            if let Some(m) = homogeneous {
                if !(matches!(topo, Topo::Flatten(_) | Topo::FlattenRepeat(_)) && i == 0) {
                    s.mode = m;
                    if m != Mode::Listen {
                        s.burst = 0;
                        if s.fin == Fin::Never {
                            s.fin = Fin::End;
                        }
                    }
                }
            }
        }
        if !credit && s.mode == Mode::PullSync && c.chance(1, 6) {
            // a source that answers every Pull with a batch of two
            s.per_pull = 2;
        }
        if !credit && c.chance(1, 5) {
            // the end follows the last datum in the same call (not in the C14 environment, whose
            // upstreams answer a Pull with one Data *or* their end)
            s.eager_end = true;
        }
        if matches!(topo, Topo::Flatten(_) | Topo::FlattenRepeat(_)) && i == 0 {
            // the outer's length is the number of inners
            s.late = false;
        }
        if matches!(topo, Topo::Tree(_)) {
            s.late = false;
        }
        pspecs.push(s);
        let wide_len = match &topo {
            _ if !wide => None,
            // many members / inner sources: each one short
            Topo::Merge(_) | Topo::Concat(_) | Topo::Flatten(_) => Some(c.choose(3)),
            Topo::FlattenRepeat(_) => Some(c.choose(3)),
            // combine: one long member (a long synchronous pull chain when it answers inside the
            // Pull and the sink pulls inside its handlers), the others short but not empty
            Topo::Combine(_) => Some(if i == 0 { 70 + c.choose(70) } else { 1 + c.choose(4) }),
            Topo::Share(_) => Some(20 + c.choose(60)),
            Topo::Unary(_) | Topo::ForEach => Some(100 + c.choose(250)),
            _ => None,
        };
        lens.push(match wide_len {
            Some(n) => n,
            None => c.choose(if small { 3 } else if deep { 10 } else { 5 }),
        });
    }
    if matches!(topo, Topo::Merge(_) | Topo::Combine(_)) {
        // a source that reacts to being told to stop: inside that call a sibling greets (late
        // merge members) or emits (listenable siblings) - e.g. a watcher that starts a fallback
        // when it is disposed. (flatten's two upstreams are not generated this way: known finding
        // K3, which has its own directed witnesses.)
        let np = n_puppets;
        if np >= 2
            && !credit
            && !indep
            && matches!(prop, "C01" | "C02" | "C03" | "C04" | "C05" | "C17" | "C08" | "C10")
            && c.chance(1, 4)
        {
            let i = c.choose(np);
            let late: Vec<usize> = (0..np).filter(|j| *j != i && pspecs[*j].late).collect();
            let listen: Vec<usize> = (0..np).filter(|j| *j != i && pspecs[*j].mode == Mode::Listen).collect();
            if !late.is_empty() && c.chance(2, 3) {
                pspecs[i].on_stop = Some((0, late[c.choose(late.len())]));
            } else if !listen.is_empty() {
                pspecs[i].on_stop = Some((1, listen[c.choose(listen.len())]));
                // now and then two siblings react (one ends, another one emits)
                if listen.len() >= 2 && c.chance(1, 2) {
                    pspecs[i].on_stop2 = Some((1, listen[c.choose(listen.len())]));
                    if c.chance(1, 2) {
                        // the first sibling does not just emit: it runs to its end
                        let j = pspecs[i].on_stop.map(|x| x.1).unwrap_or(0);
                        pspecs[i].on_stop = Some((3, j));
                    }
                }
            }
        }
    }
    if let Topo::Merge(n) = &topo {
        // a member that reacts to its first Pull by making a late sibling greet (two members
        // backed by one lazily opened connection)
        if *n >= 2 && !credit && !indep && c.chance(1, 5) {
            let late: Vec<usize> = (0..*n).filter(|j| pspecs[*j].late).collect();
            if !late.is_empty() {
                let j = late[c.choose(late.len())];
                let others: Vec<usize> = (0..*n).filter(|i| *i != j).collect();
                let i = others[c.choose(others.len())];
                pspecs[i].on_pull = Some(j);
            }
        }
    }
    if matches!(topo, Topo::ForEach) && !indep && !credit {
        // the callback feeds back into a listenable source: from inside `f`, at the k-th datum,
        // the source emits its next item (possibly its end)
        for i in 0..n_puppets {
            if pspecs[i].mode == Mode::Listen && lens[i] > 0 && c.chance(1, 3) {
                pspecs[i].feedback = Some(c.choose(lens[i]));
            }
        }
    }
    if let Topo::Flatten(n) | Topo::FlattenRepeat(n) = &topo {
        lens[0] = *n;
    }
    if let Topo::Tree(node) = &topo {
        fix_tree_lens(node, &mut lens, &mut 0);
    }
    let mut probe_specs: Vec<ProbeSpec> = (0..n_probes).map(|_| gen_probe_spec(c, !credit)).collect();
    if wide {
        // sinks that keep the long histories going: mostly pulling, and a disposal (if any) at a
        // position anywhere in the long history rather than among the first five messages
        for p in probe_specs.iter_mut() {
            if c.chance(2, 3) {
                p.rest = React::Pull;
            }
            if !credit && c.chance(1, 3) {
                let total: usize = lens.iter().sum::<usize>().min(150);
                let k = c.choose(total + 2);
                let base = if c.chance(3, 4) { React::Pull } else { React::Nothing };
                let mut policy = vec![base; k];
                policy.push([React::Terminate, React::Error, React::PullTerminate, React::PullError][c.choose(4)]);
                p.policy = policy;
                p.rest = base;
            }
        }
    }
    if let Topo::Share(n) = &topo {
        // now and then a sink attaches another sink from inside one of its handlers
        if *n >= 2 && !credit && c.chance(1, 3) {
            let i = c.choose(*n);
            let mut j = c.choose(*n);
            if j == i {
                j = (i + 1) % *n;
            }
            probe_specs[i].attach = Some((c.choose(3) as u8, 1 + c.choose(3), j));
        }
    }
    if n_probes == 2
        && matches!(prop, "C01" | "C02" | "C03" | "C04" | "C05" | "C17")
        && !matches!(topo, Topo::Share(_) | Topo::ForEach)
        && c.chance(1, 2)
    {
        // a "repeat"-style sink: from inside one of its handlers (greeting, k-th datum, end) it
        // subscribes the same output value again (the second probe); half of the time it disposes
        // its own subscription in that very handler first (dispose-and-resubscribe)
        let trigger = c.choose(3) as u8;
        let k = 1 + c.choose(4);
        probe_specs[0].attach = Some((trigger, k, 1));
        if trigger == 1 && c.chance(1, 2) {
            let base = if c.chance(1, 2) { React::Pull } else { React::Nothing };
            let mut policy = probe_specs[0].policy.clone();
            while policy.len() <= k {
                policy.push(base);
            }
            policy[k] = [React::Terminate, React::Error, React::PullTerminate][c.choose(3)];
            probe_specs[0].policy = policy;
        }
    }
    if n_probes >= 2 && !credit && !indep && !small && c.chance(1, 4) {
        // two consumers that know of each other: from inside one of its handlers probe i makes
        // probe j pull, leave or fail on j's own talkback
        let i = c.choose(n_probes);
        let mut j = c.choose(n_probes);
        if j == i {
            j = (i + 1) % n_probes;
        }
        let what = [React::Pull, React::Pull, React::Terminate, React::Error, React::PullTerminate][c.choose(5)];
        let trigger = c.choose(3) as u8;
        let k = 1 + c.choose(4);
        probe_specs[i].poke = Some((trigger, k, j, what));
        if trigger == 1 && c.chance(1, 2) {
            // a consumer that pulls for itself and for its partner in the same datum handler (a
            // zip / round-robin over two subscriptions)
            let mut policy = probe_specs[i].policy.clone();
            let base = probe_specs[i].rest;
            while policy.len() <= k {
                policy.push(base);
            }
            policy[k] = React::Pull;
            probe_specs[i].policy = policy;
        }
    }
    if let Topo::Share(n) = &topo {
        // one sink's handler both attaches a new sink and makes an older one act
        if *n >= 3 && !credit && c.chance(1, 6) {
            let t = c.choose(3) as u8;
            let k = 1 + c.choose(3);
            probe_specs[0].attach = Some((t, k, 2));
            probe_specs[0].poke = Some((t, k, 1, [React::Terminate, React::Error, React::Pull][c.choose(3)]));
            // the newcomer waits for that handler (the driver does not subscribe it by itself)
            probe_specs[2].only_attached = c.chance(2, 3);
        }
    }
    if let Topo::Share(n) = &topo {
        // the shared source's upstream reacts to being told to stop by letting another consumer
        // subscribe the shared value from inside that call (a cleanup hook that restarts a consumer)
        if *n >= 2 && !credit && matches!(prop, "C02" | "C03" | "C04" | "C12" | "C17") && c.chance(1, 6) {
            pspecs[0].on_stop = Some((2, 1 + c.choose(*n - 1)));
        }
    }
    if n_probes == 1 && !credit && !indep && !small && matches!(prop, "C02" | "C03" | "C04" | "C05" | "C07" | "C17") {
        // a consumer that feeds the source it listens to: from inside its k-th datum or its end it
        // makes a (listenable) upstream emit its next item
        let listen: Vec<usize> = (0..n_puppets).filter(|i| pspecs[*i].mode == Mode::Listen).collect();
        if !listen.is_empty() && c.chance(1, 6) {
            let t = [1u8, 2, 2][c.choose(3)];
            probe_specs[0].feed = Some((t, 1 + c.choose(4), listen[c.choose(listen.len())]));
        }
    }
    if let (Topo::FromIter(_), "C15") = (&topo, prop) {
        // robustness clauses of C15: "signals completion exactly once", "does nothing once disposed"
        // are also exercised with Pulls that arrive after the end / after the disposal
        for p in probe_specs.iter_mut() {
            p.late_pulls = c.chance(1, 2);
            p.late_pull_nested = p.late_pulls && c.chance(1, 2);
            p.pull_cap = p.pull_cap.min(40);
        }
    }
    if let Topo::FromIter(None) = &topo {
        for p in probe_specs.iter_mut() {
            p.pull_cap = 5 + c.choose(30);
        }
    }
    if small {
        for p in probe_specs.iter_mut() {
            p.policy.truncate(3);
            p.pull_cap = p.pull_cap.min(6);
        }
    }
    // C14 over a unary operator (or a stack of them): a sink that asks for up to three items ahead
    // of what it has received, over a source that answers later - half of the time one that
    // catches up with everything it owes in one go and from inside the Pulls it is sent meanwhile
    // (round 8: `r8C14-b`, a filter that folds the re-requests for several rejected items arriving
    // inside one of its own compensating Pulls into a single one). Not over concat! / flatten /
    // from_iter, which remember *that* a Pull is outstanding, not how many (as the JS reference).
    let mut extra_credit = 0;
    let unary_only = match &topo {
        Topo::Unary(_) => true,
        Topo::Tree(n) => tree_unary_only(n),
        _ => false,
    };
    if credit && unary_only && !small && c.chance(1, 3) {
        extra_credit = 1 + c.choose(3) as u32;
        for s in pspecs.iter_mut() {
            s.mode = Mode::PullDeferred;
            s.backlog = c.chance(2, 3);
        }
    }
    CaseSpec {
        topo,
        pspecs,
        lens,
        probe_specs,
        max_steps: if small { 3 + c.choose(3) } else if wide { 40 + c.choose(260) } else if deep { 15 + c.choose(45) } else { 6 + c.choose(20) },
        drain: credit || c.chance(1, 2),
        credit_env: credit,
        extra_credit,
        weights: if credit { [8, 5, 4, 0, 0, 4] } else { [8, 5, 4, 1, 1, 4] },
    }
}

fn tree_unary_only(n: &Node) -> bool {
    match n {
        Node::Leaf => true,
        Node::Un(_, n) => tree_unary_only(n),
        _ => false,
    }
}

/// the outer puppet of a Flatten node carries exactly as many items as it has subtrees
fn fix_tree_lens(node: &Node, lens: &mut [usize], next: &mut usize) {
    match node {
        Node::Leaf => *next += 1,
        Node::Un(_, n) | Node::Share(n) => fix_tree_lens(n, lens, next),
        Node::Merge(v) | Node::Concat(v) => {
            for n in v {
                fix_tree_lens(n, lens, next)
            }
        },
        Node::Combine2(a, b) => {
            fix_tree_lens(a, lens, next);
            fix_tree_lens(b, lens, next);
        },
        Node::Flatten(v) => {
            lens[*next] = v.len();
            *next += 1;
            for n in v {
                fix_tree_lens(n, lens, next)
            }
        },
    }
}

pub fn enabled(b: &Built, spec: &CaseSpec) -> Vec<(Act, u32)> {
    let w = &spec.weights;
    let mut v = vec![];
    for (pi, p) in b.probes.iter().enumerate() {
        if !p.is_subscribed() {
            if b.probe_specs[pi].only_attached {
                continue;
            }
            v.push((Act::Subscribe(pi), w[5]));
        } else if !p.can_act() && b.probe_specs[pi].late_pulls {
            let e = b.world.edge(p.edge());
            if e.greeted > 0 && (e.down_term || e.up_term) && (e.pulls_up as usize) < b.probe_specs[pi].pull_cap {
                v.push((Act::ProbeAct(pi, React::LatePull), w[2]));
            }
        } else if p.can_act() {
            if spec.credit_env {
                let e = b.world.edge(p.edge());
                // one credit per message received (greeting and each datum)
                if e.pulls_up < e.greeted + e.data_down + spec.extra_credit {
                    v.push((Act::ProbeAct(pi, React::Pull), w[2]));
                }
            } else {
                v.push((Act::ProbeAct(pi, React::Pull), w[2]));
                if w[3] > 0 {
                    v.push((Act::ProbeAct(pi, React::Terminate), w[3]));
                }
                if w[4] > 0 {
                    v.push((Act::ProbeAct(pi, React::Error), w[4]));
                }
            }
        }
    }
    if b.probes.is_empty() {
        // for_each: one application per source
        for (i, p) in b.puppets.iter().enumerate() {
            if p.n_subs() == 0 && i < b.subscribe.len() {
                v.push((Act::Subscribe(i), w[5]));
            }
        }
    }
    for p in b.puppets.iter() {
        for k in 0..p.n_subs() {
            if p.can_greet(k) {
                v.push((Act::PuppetGreet(p.id(), k), w[1]));
            } else if p.can_step(k) {
                // a source that is busy for a while: let what it owes grow before it catches up
                v.push((Act::PuppetStep(p.id(), k), if p.building_backlog(k) { 1 } else { w[0] }));
            }
        }
    }
    v
}

thread_local! {
    pub static LAST_PANIC: std::cell::RefCell<Option<(String, String)>> = std::cell::RefCell::new(None);
    pub static QUIET_PANICS: std::cell::Cell<bool> = std::cell::Cell::new(false);
}

/// payload type of panics raised by the harness itself
pub struct HarnessPanic(pub String);

pub fn install_panic_hook() {
    let prev = std::panic::take_hook();
    std::panic::set_hook(Box::new(move |info| {
        let loc = info.location().map(|l| format!("{}:{}", l.file(), l.line())).unwrap_or_default();
        let msg = if let Some(s) = info.payload().downcast_ref::<&str>() {
            s.to_string()
        } else if let Some(s) = info.payload().downcast_ref::<String>() {
            s.clone()
        } else if let Some(h) = info.payload().downcast_ref::<HarnessPanic>() {
            format!("HARNESS: {}", h.0)
        } else {
            "<non-string payload>".to_string()
        };
        LAST_PANIC.with(|p| *p.borrow_mut() = Some((loc, msg)));
        if !QUIET_PANICS.with(|q| q.get()) {
            prev(info);
        }
    }));
}

pub fn take_last_panic() -> Option<(String, String)> {
    LAST_PANIC.with(|p| p.borrow_mut().take())
}

pub fn is_crate_location(loc: &str) -> bool {
    // panics raised from crate code report a path inside the repository's src directory
    (loc.starts_with("/repo/src/") || loc.starts_with("src/")) && !loc.contains("harness")
}

fn perform(b: &Built, a: &Act) {
    match a {
        Act::Subscribe(pi) => (b.subscribe[*pi])(),
        Act::ProbeAct(pi, r) => {
            b.probes[*pi].act(*r);
        },
        Act::PuppetStep(p, k) => {
            b.puppets[*p].step(*k);
        },
        Act::PuppetGreet(p, k) => {
            b.puppets[*p].greet(*k);
        },
    }
}

fn owner_of(b: &Built, a: &Act) -> i32 {
    match a {
        Act::Subscribe(pi) | Act::ProbeAct(pi, _) => *pi as i32,
        Act::PuppetStep(p, k) | Act::PuppetGreet(p, k) => match b.puppets[*p].edge_of(*k) {
            Some(e) => b.world.edge(e).owner,
            None => -1,
        },
    }
}

/// Execute one case. `c` supplies every choice (random or enumerated).
pub fn run_case(spec: &CaseSpec, c: &mut Chooser, props: &oracles::Which) -> CaseResult {
    run_case_with(spec, c, props, None)
}

/// `directed`: an explicit list of env steps (each is performed only if it is enabled at that
/// point); used for the directed witnesses of known findings and for hand-written scenarios.
pub fn run_case_with(spec: &CaseSpec, c: &mut Chooser, props: &oracles::Which, directed: Option<&[Act]>) -> CaseResult {
    run_case_full(spec, c, props, directed, 0)
}

/// `first_sub`: which output subscription is made first (C13 replays one subscription alone)
pub fn run_case_full(
    spec: &CaseSpec,
    c: &mut Chooser,
    props: &oracles::Which,
    directed: Option<&[Act]>,
    first_sub: usize,
) -> CaseResult {
    let b = build(&spec.topo, &spec.pspecs, &spec.lens, &spec.probe_specs);
    let mut steps = vec![];
    let mut crate_panic = None;
    let mut st = oracles::State::default();
    QUIET_PANICS.with(|q| q.set(true));

    let mut do_step = |a: Act, steps: &mut Vec<Act>, st: &mut oracles::State| -> bool {
        let owner = owner_of(&b, &a);
        b.world.begin_step(owner);
        steps.push(a.clone());
        let r = catch_unwind(AssertUnwindSafe(|| perform(&b, &a)));
        if r.is_err() {
            let (loc, msg) = take_last_panic().unwrap_or_default();
            if is_crate_location(&loc) {
                crate_panic = Some(format!("{} at {}", msg, loc));
                b.world.violate(
                    &["C17"],
                    "panic",
                    &panic_culprit(&loc),
                    0,
                    -1,
                    format!("panicked at {}: {}", loc, msg),
                );
            } else if msg.starts_with("HARNESS: iterator budget exceeded") {
                // the instrumented iterator was advanced tens of thousands of times: a source that
                // runs ahead of its sink without bound (counted, never timed)
                b.world.violate(
                    &["C15", "C14", "C06"],
                    "iterator-advanced-without-bound",
                    "from_iter",
                    0,
                    -1,
                    msg.clone(),
                );
            } else {
                b.world.harness_fault(format!("harness panic at {}: {}", loc, msg));
            }
            return false;
        }
        // an oracle that panics (index out of range, ...) is a fault of the harness, reported as such
        let o = catch_unwind(AssertUnwindSafe(|| oracles::after_step(&b, spec, st, props)));
        if o.is_err() {
            let (loc, msg) = take_last_panic().unwrap_or_default();
            b.world.harness_fault(format!("oracle panicked at {}: {}", loc, msg));
            return false;
        }
        true
    };

    // probe 0 (or the for_each sink) subscribes first
    let mut ok = true;
    if !b.subscribe.is_empty() {
        ok = do_step(Act::Subscribe(first_sub), &mut steps, &mut st);
    }
    let mut n = 0;
    if let Some(acts) = directed {
        for a in acts {
            if !ok {
                break;
            }
            if *a == Act::Subscribe(first_sub) {
                continue;
            }
            if enabled(&b, spec).iter().any(|x| x.0 == *a) {
                ok = do_step(a.clone(), &mut steps, &mut st);
            } else {
                b.world.lock().notes.push(format!("directed step not enabled: {}", a.show()));
            }
        }
        n = spec.max_steps;
    }
    while ok && n < spec.max_steps {
        let en = enabled(&b, spec);
        if en.is_empty() {
            break;
        }
        let ws: Vec<u32> = en.iter().map(|x| x.1).collect();
        let i = c.weighted(&ws);
        ok = do_step(en[i].0.clone(), &mut steps, &mut st);
        n += 1;
    }
    // final phase: every late member greets; then optionally drain the puppets
    if ok && directed.is_none() {
        let mut guard = 0;
        loop {
            let en: Vec<Act> = enabled(&b, spec)
                .into_iter()
                .map(|x| x.0)
                .filter(|a| match a {
                    Act::PuppetGreet(..) => true,
                    Act::PuppetStep(..) => spec.drain,
                    _ => false,
                })
                .collect();
            if en.is_empty() || guard > 60 {
                break;
            }
            let a = en[c.choose(en.len())].clone();
            if !do_step(a, &mut steps, &mut st) {
                ok = false;
                break;
            }
            guard += 1;
        }
    }
    if ok {
        oracles::at_end(&b, spec, &mut st, props);
    }
    QUIET_PANICS.with(|q| q.set(false));
    let (violations, harness_faults) = {
        let g = b.world.lock();
        (g.violations.clone(), g.harness_faults.clone())
    };
    CaseResult { built: b, steps, violations, harness_faults, crate_panic, exercised: st.exercised }
}

pub fn panic_culprit(loc: &str) -> String {
    // "/repo/src/merge.rs:125" -> "merge"
    let f = loc.rsplit('/').next().unwrap_or(loc);
    f.split('.').next().unwrap_or(f).to_string()
}

/// Did the property's trigger occur in this execution? (defines "non-trivial" in the evidence)
pub fn trigger(prop: &str, r: &CaseResult) -> bool {
    let g = r.built.world.lock();
    let probe_edges: Vec<usize> =
        (0..g.edges.len()).filter(|i| matches!(g.edges[*i].role, Role::Probe(_) | Role::Tap(..))).collect();
    match prop {
        "C01" => probe_edges.iter().any(|e| g.edges[*e].greeted > 0 && g.edges[*e].events.len() > 2),
        "C02" => probe_edges.iter().any(|e| g.edges[*e].down_term),
        "C03" => {
            // a sink disposed while some upstream subscription was still live
            probe_edges.iter().any(|e| {
                let ed = &g.edges[*e];
                if !ed.up_term || ed.up_term_ev < 0 {
                    return false;
                }
                let t = g.events[ed.up_term_ev as usize].t_in;
                oracles::any_upstream_live_at(&g, t)
            })
        },
        "C04" => {
            g.edges.iter().any(|e| matches!(e.role, Role::Puppet(..) | Role::Tap(..)) && e.greeted > 0 && e.over())
        },
        "C05" => g.events.iter().any(|ev| {
            ev.dir == Dir::Down
                && ev.kind == Kind::Error
                && matches!(g.edges[ev.edge as usize].role, Role::Puppet(..))
        }),
        _ => g.events.len() > 2,
    }
}
