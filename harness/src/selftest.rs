//! Harness self-test, run at the start of every check: (1) puppets and probes wired directly to
//! each other, with no crate code in between, must produce no violation and no harness fault
//! under random schedules; (2) every universal monitor must fire on a hand-made non-conformant
//! history. A failing self-test makes the check inconclusive.

use crate::probe::{Probe, React};
use crate::puppet::{Fin, Mode, Puppet, PuppetCtl, PuppetSpec};
use crate::rng::{Chooser, Rng};
use crate::seq::gen_probe_spec;
use crate::topo::items_for;
use crate::world::{Dir, Kind, Role, Val, World};
use std::sync::Arc;

pub fn run() -> Result<String, String> {
    // (1) direct wiring
    let mut cases = 0;
    let mut events = 0;
    for i in 0..4000u64 {
        let mut c = Chooser::random(Rng::from_parts(&[0x5E1F, i]));
        let world = World::new();
        let mode = [Mode::Listen, Mode::PullSync, Mode::PullDeferred][c.choose(3)];
        let fin = [Fin::End, Fin::Err, Fin::Never][c.choose(3)];
        let fin = if mode != Mode::Listen && fin == Fin::Never { Fin::End } else { fin };
        let spec = PuppetSpec { mode, late: c.chance(1, 3), fin, burst: if mode == Mode::Listen { c.choose(4) } else { 0 }, eager_end: c.chance(1, 4), per_pull: 1 + c.choose(2), on_stop: None, on_stop2: None, feedback: None, on_pull: None, backlog: false };
        let p: Arc<Puppet<i64>> = Puppet::new(&world, 0, "probe", spec, items_for(0, c.choose(5)));
        let probe = Probe::<i64>::new(&world, 0, "puppet", gen_probe_spec(&mut c, true));
        world.begin_step(0);
        probe.subscribe(&p.source());
        for _ in 0..(3 + c.choose(12)) {
            world.begin_step(0);
            match c.choose(5) {
                0 => {
                    probe.act(React::Pull);
                },
                1 => {
                    if c.chance(1, 4) {
                        probe.act(if c.chance(1, 2) { React::Terminate } else { React::Error });
                    }
                },
                2 => {
                    if p.can_greet(0) {
                        p.greet(0);
                    }
                },
                _ => {
                    if PuppetCtl::can_step(&p, 0) {
                        PuppetCtl::step(&p, 0);
                    }
                },
            }
        }
        let g = world.lock();
        if !g.violations.is_empty() {
            return Err(format!("direct wiring case {}: monitor fired without crate code: {:?}", i, g.violations[0].kind));
        }
        if !g.harness_faults.is_empty() {
            return Err(format!("direct wiring case {}: {}", i, g.harness_faults[0]));
        }
        cases += 1;
        events += g.events.len();
    }
    // (2) every universal monitor fires on a non-conformant history
    let expect = |name: &str, script: &[(Role, Dir, Kind)], want: &str| -> Result<(), String> {
        let world = World::new();
        let mut edges: Vec<(Role, usize)> = vec![];
        for (role, dir, kind) in script {
            let e = match edges.iter().find(|x| x.0 == *role) {
                Some(x) => x.1,
                None => {
                    let e = world.new_edge(*role, format!("{:?}", role), "above", "below");
                    edges.push((*role, e));
                    e
                },
            };
            let _f = world.enter(e, *dir, *kind, Val::none(), -1);
        }
        let g = world.lock();
        if g.violations.iter().any(|v| v.kind == want) {
            Ok(())
        } else {
            Err(format!(
                "monitor `{}` did not fire on the history `{}` (got {:?})",
                want,
                name,
                g.violations.iter().map(|v| v.kind).collect::<Vec<_>>()
            ))
        }
    };
    use Dir::*;
    use Kind::*;
    let s = Role::Probe(0);
    let u = Role::Puppet(0, 0);
    let t = Role::Tap(0, 0);
    expect("greeted twice", &[(s, Up, Handshake), (s, Down, Handshake), (s, Down, Handshake)], "greeted-twice")?;
    expect("data before greeting", &[(s, Up, Handshake), (s, Down, Data)], "delivery-before-greeting")?;
    expect("terminal before greeting", &[(t, Up, Handshake), (t, Down, Terminate)], "delivery-before-greeting")?;
    expect(
        "data after terminal",
        &[(s, Up, Handshake), (s, Down, Handshake), (s, Down, Terminate), (s, Down, Data)],
        "delivery-after-terminal",
    )?;
    expect(
        "second terminal",
        &[(s, Up, Handshake), (s, Down, Handshake), (s, Down, Error), (s, Down, Terminate)],
        "delivery-after-terminal",
    )?;
    expect(
        "delivery after disposal",
        &[(s, Up, Handshake), (s, Down, Handshake), (s, Up, Terminate), (s, Down, Data)],
        "delivery-after-disposal",
    )?;
    expect(
        "termination is mutual",
        &[(t, Up, Handshake), (t, Down, Handshake), (t, Up, Error), (t, Down, Terminate)],
        "delivery-after-disposal",
    )?;
    expect(
        "upstream stopped twice",
        &[(u, Up, Handshake), (u, Down, Handshake), (u, Up, Terminate), (u, Up, Terminate)],
        "upstream-stopped-twice",
    )?;
    expect(
        "upstream stopped after it ended",
        &[(u, Up, Handshake), (u, Down, Handshake), (u, Down, Terminate), (u, Up, Terminate)],
        "upstream-stopped-after-it-ended",
    )?;
    expect(
        "pull after upstream ended",
        &[(u, Up, Handshake), (u, Down, Handshake), (u, Down, Error), (u, Up, Pull)],
        "pull-after-upstream-ended",
    )?;
    expect(
        "pull after stop",
        &[(u, Up, Handshake), (u, Down, Handshake), (u, Up, Terminate), (u, Up, Pull)],
        "pull-after-stop",
    )?;
    expect("pull before greeting", &[(u, Up, Handshake), (u, Up, Pull)], "pull-before-greeting")?;
    Ok(format!("direct wiring: {} cases, {} events, no monitor fired; 12 non-conformant histories each tripped their monitor", cases, events))
}
