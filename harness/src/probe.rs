//! Recording sinks ("probes") that observe an output from below and react from inside handlers.

use crate::puppet::DynErr;
use crate::world::{Dir, EdgeId, Kind, Repr, Role, Val, World};
use callbag::{Message, Sink, Source};
use never::Never;
use std::sync::{Arc, Mutex};

#[derive(Clone, Copy, Debug, PartialEq, Eq, Hash)]
pub enum React {
    Nothing,
    Pull,
    Pull2,
    Terminate,
    Error,
    /// Pull, then (if still allowed) Terminate, inside the same handler
    PullTerminate,
    /// Pull, then (if still allowed) Error, inside the same handler
    PullError,
    /// a Pull sent although the subscription is over (only with `late_pulls`; C15 robustness)
    LatePull,
}

#[derive(Clone, Debug)]
pub struct ProbeSpec {
    /// reaction to the greeting (index 0) and to the k-th datum (index k, 1-based)
    pub policy: Vec<React>,
    /// reaction once the table is exhausted
    pub rest: React,
    /// the probe stops pulling after this many Pulls (keeps runs over unbounded sources finite)
    pub pull_cap: usize,
    /// share only: from inside a handler, attach another probe to the same output:
    /// (trigger: 0 = in the greeting, 1 = in the k-th datum, 2 = in the terminal; k; probe index)
    pub attach: Option<(u8, usize, usize)>,
    /// from inside a handler (same trigger encoding as `attach`), make ANOTHER probe of the same
    /// output act on its own talkback: (trigger, k, probe index, what it does) - two consumers that
    /// know of each other (one's completion makes the other leave, one's datum makes the other pull)
    pub poke: Option<(u8, usize, usize, React)>,
    /// from inside a handler (same trigger encoding), make upstream puppet `p` emit its next script
    /// item: a consumer that feeds, completes or fails the very source it listens to - (trigger, k, p)
    pub feed: Option<(u8, usize, usize)>,
    /// this probe is only ever subscribed by another probe's handler (never by the driver)
    pub only_attached: bool,
    /// the sink may send Pulls after it received the end or after it disposed (from_iter / C15 only)
    pub late_pulls: bool,
    /// the sink does not keep the talkback it is greeted with (it can then never act; conformant)
    pub drop_talkback: bool,
    /// with `late_pulls`: one such Pull is also sent from INSIDE the handler of the Terminate / Error
    /// that ends the subscription (a sink whose completion callback asks for more)
    pub late_pull_nested: bool,
}

impl ProbeSpec {
    pub fn passive() -> Self {
        ProbeSpec { policy: vec![], rest: React::Nothing, pull_cap: 1000, attach: None, poke: None, feed: None, only_attached: false, late_pulls: false, drop_talkback: false, late_pull_nested: false }
    }
    pub fn puller() -> Self {
        ProbeSpec { policy: vec![], rest: React::Pull, pull_cap: 1000, attach: None, poke: None, feed: None, only_attached: false, late_pulls: false, drop_talkback: false, late_pull_nested: false }
    }
}

#[derive(Debug)]
pub struct ProbeError(pub usize);
impl std::fmt::Display for ProbeError {
    fn fmt(&self, f: &mut std::fmt::Formatter<'_>) -> std::fmt::Result {
        write!(f, "probe {} gave up", self.0)
    }
}
impl std::error::Error for ProbeError {}

pub struct Probe<T> {
    pub idx: usize,
    pub edge: EdgeId,
    pub world: Arc<World>,
    pub spec: ProbeSpec,
    pub talkback: Mutex<Option<Arc<Source<T>>>>,
    pub err: DynErr,
    pub err_id: i32,
    pub subscribed: Mutex<bool>,
    /// the last error value received (for oracles that need to downcast it)
    pub last_err: Mutex<Option<DynErr>>,
    /// called at the end of every handler with (trigger, k); used to attach other probes
    pub hook: Mutex<Option<Arc<dyn Fn(u8, usize) + Send + Sync>>>,
    /// second hook of the same kind (source feedback, wired after the puppets exist)
    pub hook2: Mutex<Option<Arc<dyn Fn(u8, usize) + Send + Sync>>>,
}

impl<T: Repr + Send + Sync + 'static> Probe<T> {
    pub fn new(world: &Arc<World>, idx: usize, output_label: &str, spec: ProbeSpec) -> Arc<Self> {
        let edge = world.new_edge(Role::Probe(idx as u16), format!("S{}", idx), output_label, "probe");
        // a probe is its own output subscription
        world.with_edge(edge, |e| e.owner = idx as i32);
        if spec.late_pulls {
            world.with_edge(edge, |e| e.lenient_sink = true);
        }
        let err: DynErr = Arc::new(ProbeError(idx));
        let err_id = world.register_err(&err, "S");
        Arc::new(Probe {
            idx,
            edge,
            world: Arc::clone(world),
            spec,
            talkback: Mutex::new(None),
            err,
            err_id,
            subscribed: Mutex::new(false),
            last_err: Mutex::new(None),
            hook: Mutex::new(None),
            hook2: Mutex::new(None),
        })
    }

    pub fn sink(self: &Arc<Self>) -> Arc<Sink<T>> {
        let me = Arc::clone(self);
        Arc::new((move |message: Message<T, Never>| me.on_message(message)).into())
    }

    pub fn subscribe(self: &Arc<Self>, source: &Arc<Source<T>>) {
        {
            let mut s = self.subscribed.lock().unwrap();
            if *s {
                return;
            }
            *s = true;
        }
        // upstream subscriptions made on behalf of this subscription belong to it, also when it is
        // made from inside a handler of another subscription
        let _o = self.world.owner_scope(self.idx as i32);
        let _f = self.world.enter(self.edge, Dir::Up, Kind::Handshake, Val::none(), -1);
        source(Message::Handshake(self.sink()));
    }

    fn on_message(self: &Arc<Self>, message: Message<T, Never>) {
        match message {
            Message::Handshake(tb) => {
                let _f = self.world.enter(self.edge, Dir::Down, Kind::Handshake, Val::none(), -1);
                if !self.spec.drop_talkback {
                    let mut t = self.talkback.lock().unwrap();
                    if t.is_none() {
                        *t = Some(tb);
                    }
                }
                self.react(0);
                self.run_hook(0, 0);
            },
            Message::Data(d) => {
                let v = d.repr();
                let _f = self.world.enter(self.edge, Dir::Down, Kind::Data, v, -1);
                let k = self.world.with_edge(self.edge, |e| e.data_down) as usize;
                self.react(k);
                self.run_hook(1, k);
            },
            Message::Terminate => {
                let _f = self.world.enter(self.edge, Dir::Down, Kind::Terminate, Val::none(), -1);
                self.release();
                if self.spec.late_pull_nested {
                    self.act(React::LatePull);
                }
                self.run_hook(2, 0);
            },
            Message::Error(e) => {
                *self.last_err.lock().unwrap() = Some(Arc::clone(&e));
                let id = self.world.err_id(&e);
                let _f = self.world.enter(self.edge, Dir::Down, Kind::Error, Val::none(), id);
                self.release();
                if self.spec.late_pull_nested {
                    self.act(React::LatePull);
                }
                self.run_hook(2, 0);
            },
            Message::Pull => {
                let _f = self.world.enter(self.edge, Dir::Down, Kind::Pull, Val::none(), -1);
            },
        }
    }

    /// a sink whose subscription is over forgets the talkback (unless it is one of the lenient
    /// sinks of C15 that keep pulling afterwards)
    fn release(&self) {
        if !self.spec.late_pulls {
            *self.talkback.lock().unwrap() = None;
        }
    }

    fn run_hook(&self, trigger: u8, k: usize) {
        let h = self.hook.lock().unwrap().clone();
        if let Some(h) = h {
            h(trigger, k);
        }
        let h2 = self.hook2.lock().unwrap().clone();
        if let Some(h) = h2 {
            h(trigger, k);
        }
    }

    fn react(self: &Arc<Self>, k: usize) {
        let r = if k < self.spec.policy.len() { self.spec.policy[k] } else { self.spec.rest };
        self.act(r);
    }

    pub fn can_act(&self) -> bool {
        let e = self.world.edge(self.edge);
        e.greeted > 0 && !e.down_term && !e.up_term && self.talkback.lock().unwrap().is_some()
    }

    /// Perform an action if (and only if) a conformant sink may perform it now.
    pub fn act(self: &Arc<Self>, r: React) -> bool {
        let _o = self.world.owner_scope(self.idx as i32);
        if r == React::LatePull {
            let e = self.world.edge(self.edge);
            let tb = self.talkback.lock().unwrap().clone();
            if self.spec.late_pulls && e.greeted > 0 && (e.down_term || e.up_term) && (e.pulls_up as usize) < self.spec.pull_cap {
                if let Some(tb) = tb {
                    let _f = self.world.enter(self.edge, Dir::Up, Kind::Pull, Val::none(), -1);
                    tb(Message::Pull);
                    return true;
                }
            }
            return false;
        }
        if r == React::Nothing || !self.can_act() {
            return false;
        }
        if let React::PullTerminate | React::PullError = r {
            self.act(React::Pull);
            return self.act(if r == React::PullTerminate { React::Terminate } else { React::Error });
        }
        if matches!(r, React::Pull | React::Pull2)
            && self.world.with_edge(self.edge, |e| e.pulls_up) as usize >= self.spec.pull_cap
        {
            return false;
        }
        let tb = match self.talkback.lock().unwrap().clone() {
            Some(t) => t,
            None => return false,
        };
        match r {
            React::Nothing | React::PullTerminate | React::PullError | React::LatePull => {},
            React::Pull => {
                let _f = self.world.enter(self.edge, Dir::Up, Kind::Pull, Val::none(), -1);
                tb(Message::Pull);
            },
            React::Pull2 => {
                {
                    let _f = self.world.enter(self.edge, Dir::Up, Kind::Pull, Val::none(), -1);
                    tb(Message::Pull);
                }
                if self.can_act() {
                    let _f = self.world.enter(self.edge, Dir::Up, Kind::Pull, Val::none(), -1);
                    tb(Message::Pull);
                }
            },
            React::Terminate => {
                {
                    let _f = self.world.enter(self.edge, Dir::Up, Kind::Terminate, Val::none(), -1);
                    tb(Message::Terminate);
                }
                self.release();
            },
            React::Error => {
                {
                    let _f = self.world.enter(self.edge, Dir::Up, Kind::Error, Val::none(), self.err_id);
                    tb(Message::Error(Arc::clone(&self.err)));
                }
                self.release();
            },
        }
        true
    }
}

pub trait ProbeCtl: Send + Sync {
    fn idx(&self) -> usize;
    fn edge(&self) -> EdgeId;
    fn can_act(&self) -> bool;
    fn act(&self, r: React) -> bool;
    fn is_subscribed(&self) -> bool;
    fn err_id(&self) -> i32;
    fn teardown(&self);
    fn feed(&self) -> Option<(u8, usize, usize)>;
    fn set_hook2(&self, h: Arc<dyn Fn(u8, usize) + Send + Sync>);
}

impl<T: Repr + Send + Sync + 'static> ProbeCtl for Arc<Probe<T>> {
    fn idx(&self) -> usize {
        self.idx
    }
    fn edge(&self) -> EdgeId {
        self.edge
    }
    fn can_act(&self) -> bool {
        Probe::can_act(self)
    }
    fn act(&self, r: React) -> bool {
        Probe::act(self, r)
    }
    fn is_subscribed(&self) -> bool {
        *self.subscribed.lock().unwrap()
    }
    fn err_id(&self) -> i32 {
        self.err_id
    }
    fn teardown(&self) {
        *self.talkback.lock().unwrap() = None;
        *self.hook.lock().unwrap() = None;
        *self.hook2.lock().unwrap() = None;
        *self.last_err.lock().unwrap() = None;
    }
    fn feed(&self) -> Option<(u8, usize, usize)> {
        self.spec.feed
    }
    fn set_hook2(&self, h: Arc<dyn Fn(u8, usize) + Send + Sync>) {
        *self.hook2.lock().unwrap() = Some(h);
    }
}
