//! Runner for engine E2 (C06): random pull pipelines against the reference lazy list evaluator,
//! plus the `pipe!` left-to-right application test.

use crate::json::J;
use crate::pull::{build_ref, gen_pipeline, n_leaves, run_pipeline, Counters, Pipe};
use crate::report::{load_known, Report};
use crate::rng::{Chooser, Rng};
use crate::seq::{is_crate_location, take_last_panic, QUIET_PANICS};
use crate::world::{abstract_hash, render, Dir, Kind, Role};
use crate::Opts;
use std::panic::{catch_unwind, AssertUnwindSafe};
use std::sync::atomic::Ordering;
use std::sync::{Arc, Mutex};

struct Teardown(std::sync::Arc<crate::world::World>);
impl Drop for Teardown {
    fn drop(&mut self) {
        self.0.teardown();
    }
}

pub struct PullOutcome {
    pub pipe: Pipe,
    pub got: Vec<i64>,
    pub want: Vec<i64>,
    pub trace: Vec<String>,
    pub hash: u64,
    pub events: u64,
    pub verdict: Option<(&'static str, &'static str, String)>, // (property, kind, detail)
    pub got_calls: Vec<usize>,
    pub want_calls: Vec<usize>,
    /// Some(whether the output completed) when the pipeline ran to quiescence without panicking
    pub completed: Option<bool>,
    /// (Pulls sent by for_each, Data received) at the output
    pub demand: (usize, usize),
}

pub fn run_one(pipe: &Pipe) -> PullOutcome {
    let nl = n_leaves(pipe);
    // reference
    let rc = Arc::new(Counters::default());
    QUIET_PANICS.with(|q| q.set(true));
    let wr = catch_unwind(AssertUnwindSafe(|| build_ref(pipe, &rc).collect::<Vec<i64>>()));
    QUIET_PANICS.with(|q| q.set(false));
    let want: Vec<i64> = match wr {
        Ok(w) => w,
        Err(_) => {
            let (loc, msg) = take_last_panic().unwrap_or_default();
            return PullOutcome {
                pipe: pipe.clone(),
                got: vec![],
                want: vec![],
                trace: vec![],
                hash: 0,
                events: 0,
                // a reference that runs into the iterator budget is a program that is too large
                // for this engine, not a fault: skip it
                verdict: if msg.starts_with("HARNESS: iterator budget exceeded") {
                    None
                } else {
                    Some(("HARNESS", "reference-evaluator-panicked", format!("{} at {} for {}", msg, loc, pipe.show())))
                },
                got_calls: vec![],
                want_calls: vec![],
                completed: None,
                demand: (0, 0),
            };
        },
    };
    let want_calls: Vec<usize> = {
        let l = rc.leaves.lock().unwrap();
        (0..nl).map(|i| l.get(i).map(|c| c.load(Ordering::SeqCst)).unwrap_or(0)).collect()
    };
    // summed: a source value that is subscribed several times is built once here but once per
    // use in the reference, so only the totals are comparable
    let want_inner: usize = rc.inners.lock().unwrap().iter().map(|c| c.load(Ordering::SeqCst)).sum();
    let want_closures = rc.closures.load(Ordering::SeqCst);
    // nested repetition can make a pipeline multiply its work; keep the runs small (the budget of
    // the instrumented iterators stays far above this, so that a pipeline that fails to stop is
    // still told apart from one that is merely long)
    if want_calls.iter().sum::<usize>() + want_inner > 4_000 {
        return PullOutcome {
            pipe: pipe.clone(),
            got: vec![],
            want: vec![],
            trace: vec![],
            hash: 0,
            events: 0,
            verdict: None,
            got_calls: vec![],
            want_calls: vec![],
            completed: None,
            demand: (0, 0),
        };
    }
    // the real thing
    let cc = Arc::new(Counters::default());
    QUIET_PANICS.with(|q| q.set(true));
    let r = catch_unwind(AssertUnwindSafe(|| run_pipeline(pipe, &cc)));
    QUIET_PANICS.with(|q| q.set(false));
    let got_calls: Vec<usize> = {
        let l = cc.leaves.lock().unwrap();
        (0..nl).map(|i| l.get(i).map(|c| c.load(Ordering::SeqCst)).unwrap_or(0)).collect()
    };
    let got_inner: usize = cc.inners.lock().unwrap().iter().map(|c| c.load(Ordering::SeqCst)).sum();
    let got_closures = cc.closures.load(Ordering::SeqCst);
    let mut out = PullOutcome {
        pipe: pipe.clone(),
        got: vec![],
        want,
        trace: vec![],
        hash: 0,
        events: 0,
        verdict: None,
        got_calls,
        want_calls,
        completed: None,
        demand: (0, 0),
    };
    match r {
        Err(_) => {
            let (loc, msg) = take_last_panic().unwrap_or_default();
            if msg.starts_with("HARNESS: iterator budget exceeded") {
                out.verdict = Some(("C06", "iterator-over-advanced", format!("{} (pipeline does not stop)", msg)));
            } else if is_crate_location(&loc) {
                out.verdict = Some(("C17", "panic", format!("panicked at {}: {}", loc, msg)));
            } else {
                out.verdict = Some(("HARNESS", "harness-panic", format!("{} at {}", msg, loc)));
            }
            return out;
        },
        Ok((got, world)) => {
            let world2 = std::sync::Arc::clone(&world);
            let _td = Teardown(world2);
            let g = world.lock();
            out.got = got;
            out.trace = render(&g);
            out.hash = abstract_hash(&g);
            out.events = g.events.len() as u64;
            // completion observed at the tap before for_each
            let tap_edge = (0..g.edges.len()).find(|e| matches!(g.edges[*e].role, Role::Tap(0, 0)));
            let completed = tap_edge
                .map(|e| {
                    g.edges[e].events.iter().any(|i| {
                        let ev = &g.events[*i as usize];
                        ev.dir == Dir::Down && ev.kind == Kind::Terminate
                    })
                })
                .unwrap_or(false);
            out.completed = Some(completed);
            if let Some(e) = tap_edge {
                out.demand = (g.edges[e].pulls_up as usize, g.edges[e].data_down as usize);
            }
            if !g.violations.is_empty() {
                let v = &g.violations[0];
                out.verdict = Some((v.props[0], v.kind, format!("{} on {}: {}", v.kind, v.edge_label, v.detail)));
            } else if out.got != out.want {
                out.verdict = Some((
                    "C06",
                    "not-the-list-function",
                    format!("f was called with {:?}, the list function gives {:?}", out.got, out.want),
                ));
            } else if !completed {
                out.verdict = Some((
                    "C06",
                    "stalled",
                    format!("f received all {} elements but the pipeline never completed", out.got.len()),
                ));
            } else if out.got_calls != out.want_calls {
                let over = out.got_calls.iter().zip(&out.want_calls).any(|(a, b)| a > b);
                out.verdict = Some((
                    "C06",
                    if over { "iterator-over-advanced" } else { "iterator-under-advanced" },
                    format!("next() calls per leaf iterator: {:?}, on-demand evaluation needs {:?}", out.got_calls, out.want_calls),
                ));
            } else if got_inner != want_inner {
                out.verdict = Some((
                    "C06",
                    "inner-iterator-advance-differs",
                    format!("next() calls of flattened inner iterators: {:?}, on-demand evaluation needs {:?}", got_inner, want_inner),
                ));
            } else if got_closures != want_closures {
                out.verdict = Some((
                    "C06",
                    "closure-call-count-differs",
                    format!("user closures ran {} times, the list function runs them {} times", got_closures, want_closures),
                ));
            }
        },
    }
    out
}

fn outcome_json(o: &PullOutcome) -> J {
    J::obj()
        .set("pipeline", J::s(&format!("pipe!({}, for_each(f))", o.pipe.show().replace('|', ", "))))
        .set("f_called_with", J::arr(o.got.iter().map(|x| J::i(*x))))
        .set("list_function", J::arr(o.want.iter().map(|x| J::i(*x))))
        .set("next_calls_per_leaf", J::arr(o.got_calls.iter().map(|x| J::i(*x as i64))))
        .set("next_calls_reference", J::arr(o.want_calls.iter().map(|x| J::i(*x as i64))))
        .set("trace", J::arr(o.trace.iter().take(120).map(|l| J::s(l))))
}

/// `pipe!` is plain left-to-right application: stages log their application order.
fn pipe_macro_test() -> Option<String> {
    let log: Arc<Mutex<Vec<String>>> = Arc::new(Mutex::new(vec![]));
    let mk = |name: &'static str| {
        let log = Arc::clone(&log);
        move |x: Vec<&'static str>| -> Vec<&'static str> {
            log.lock().unwrap().push(format!("{}({})", name, x.join(">")));
            let mut y = x;
            y.push(name);
            y
        }
    };
    let r = callbag::pipe!(vec!["a"], mk("f"), mk("g"), mk("h"),);
    let l = log.lock().unwrap().clone();
    if r != vec!["a", "f", "g", "h"] || l != vec!["f(a)", "g(a>f)", "h(a>f>g)"] {
        return Some(format!("pipe!(a, f, g, h) applied {:?} and returned {:?}", l, r));
    }
    // nested pipes and a two-argument form
    let r2 = callbag::pipe!(callbag::pipe!(vec!["a"], mk("f")), mk("g"));
    if r2 != vec!["a", "f", "g"] {
        return Some(format!("nested pipe! returned {:?}", r2));
    }
    // every length from 1 to 11 stages: each stage exactly once, left to right
    {
        log.lock().unwrap().clear();
        let r = callbag::pipe!(vec!["x"], mk("a"));
        let want: Vec<&'static str> = vec!["x", "a"];
        let order: Vec<String> = log.lock().unwrap().iter().map(|l| l.split('(').next().unwrap_or("").to_string()).collect();
        let want_order: Vec<String> = want[1..].iter().map(|s| s.to_string()).collect();
        if r != want || order != want_order {
            return Some(format!("pipe! with 1 stages applied them in the order {:?} and returned {:?}", order, r));
        }
    }
    {
        log.lock().unwrap().clear();
        let r = callbag::pipe!(vec!["x"], mk("a"), mk("b"));
        let want: Vec<&'static str> = vec!["x", "a", "b"];
        let order: Vec<String> = log.lock().unwrap().iter().map(|l| l.split('(').next().unwrap_or("").to_string()).collect();
        let want_order: Vec<String> = want[1..].iter().map(|s| s.to_string()).collect();
        if r != want || order != want_order {
            return Some(format!("pipe! with 2 stages applied them in the order {:?} and returned {:?}", order, r));
        }
    }
    {
        log.lock().unwrap().clear();
        let r = callbag::pipe!(vec!["x"], mk("a"), mk("b"), mk("c"));
        let want: Vec<&'static str> = vec!["x", "a", "b", "c"];
        let order: Vec<String> = log.lock().unwrap().iter().map(|l| l.split('(').next().unwrap_or("").to_string()).collect();
        let want_order: Vec<String> = want[1..].iter().map(|s| s.to_string()).collect();
        if r != want || order != want_order {
            return Some(format!("pipe! with 3 stages applied them in the order {:?} and returned {:?}", order, r));
        }
    }
    {
        log.lock().unwrap().clear();
        let r = callbag::pipe!(vec!["x"], mk("a"), mk("b"), mk("c"), mk("d"));
        let want: Vec<&'static str> = vec!["x", "a", "b", "c", "d"];
        let order: Vec<String> = log.lock().unwrap().iter().map(|l| l.split('(').next().unwrap_or("").to_string()).collect();
        let want_order: Vec<String> = want[1..].iter().map(|s| s.to_string()).collect();
        if r != want || order != want_order {
            return Some(format!("pipe! with 4 stages applied them in the order {:?} and returned {:?}", order, r));
        }
    }
    {
        log.lock().unwrap().clear();
        let r = callbag::pipe!(vec!["x"], mk("a"), mk("b"), mk("c"), mk("d"), mk("e"));
        let want: Vec<&'static str> = vec!["x", "a", "b", "c", "d", "e"];
        let order: Vec<String> = log.lock().unwrap().iter().map(|l| l.split('(').next().unwrap_or("").to_string()).collect();
        let want_order: Vec<String> = want[1..].iter().map(|s| s.to_string()).collect();
        if r != want || order != want_order {
            return Some(format!("pipe! with 5 stages applied them in the order {:?} and returned {:?}", order, r));
        }
    }
    {
        log.lock().unwrap().clear();
        let r = callbag::pipe!(vec!["x"], mk("a"), mk("b"), mk("c"), mk("d"), mk("e"), mk("f"));
        let want: Vec<&'static str> = vec!["x", "a", "b", "c", "d", "e", "f"];
        let order: Vec<String> = log.lock().unwrap().iter().map(|l| l.split('(').next().unwrap_or("").to_string()).collect();
        let want_order: Vec<String> = want[1..].iter().map(|s| s.to_string()).collect();
        if r != want || order != want_order {
            return Some(format!("pipe! with 6 stages applied them in the order {:?} and returned {:?}", order, r));
        }
    }
    {
        log.lock().unwrap().clear();
        let r = callbag::pipe!(vec!["x"], mk("a"), mk("b"), mk("c"), mk("d"), mk("e"), mk("f"), mk("g"));
        let want: Vec<&'static str> = vec!["x", "a", "b", "c", "d", "e", "f", "g"];
        let order: Vec<String> = log.lock().unwrap().iter().map(|l| l.split('(').next().unwrap_or("").to_string()).collect();
        let want_order: Vec<String> = want[1..].iter().map(|s| s.to_string()).collect();
        if r != want || order != want_order {
            return Some(format!("pipe! with 7 stages applied them in the order {:?} and returned {:?}", order, r));
        }
    }
    {
        log.lock().unwrap().clear();
        let r = callbag::pipe!(vec!["x"], mk("a"), mk("b"), mk("c"), mk("d"), mk("e"), mk("f"), mk("g"), mk("h"));
        let want: Vec<&'static str> = vec!["x", "a", "b", "c", "d", "e", "f", "g", "h"];
        let order: Vec<String> = log.lock().unwrap().iter().map(|l| l.split('(').next().unwrap_or("").to_string()).collect();
        let want_order: Vec<String> = want[1..].iter().map(|s| s.to_string()).collect();
        if r != want || order != want_order {
            return Some(format!("pipe! with 8 stages applied them in the order {:?} and returned {:?}", order, r));
        }
    }
    {
        log.lock().unwrap().clear();
        let r = callbag::pipe!(vec!["x"], mk("a"), mk("b"), mk("c"), mk("d"), mk("e"), mk("f"), mk("g"), mk("h"), mk("i"));
        let want: Vec<&'static str> = vec!["x", "a", "b", "c", "d", "e", "f", "g", "h", "i"];
        let order: Vec<String> = log.lock().unwrap().iter().map(|l| l.split('(').next().unwrap_or("").to_string()).collect();
        let want_order: Vec<String> = want[1..].iter().map(|s| s.to_string()).collect();
        if r != want || order != want_order {
            return Some(format!("pipe! with 9 stages applied them in the order {:?} and returned {:?}", order, r));
        }
    }
    {
        log.lock().unwrap().clear();
        let r = callbag::pipe!(vec!["x"], mk("a"), mk("b"), mk("c"), mk("d"), mk("e"), mk("f"), mk("g"), mk("h"), mk("i"), mk("j"));
        let want: Vec<&'static str> = vec!["x", "a", "b", "c", "d", "e", "f", "g", "h", "i", "j"];
        let order: Vec<String> = log.lock().unwrap().iter().map(|l| l.split('(').next().unwrap_or("").to_string()).collect();
        let want_order: Vec<String> = want[1..].iter().map(|s| s.to_string()).collect();
        if r != want || order != want_order {
            return Some(format!("pipe! with 10 stages applied them in the order {:?} and returned {:?}", order, r));
        }
    }
    {
        log.lock().unwrap().clear();
        let r = callbag::pipe!(vec!["x"], mk("a"), mk("b"), mk("c"), mk("d"), mk("e"), mk("f"), mk("g"), mk("h"), mk("i"), mk("j"), mk("k"));
        let want: Vec<&'static str> = vec!["x", "a", "b", "c", "d", "e", "f", "g", "h", "i", "j", "k"];
        let order: Vec<String> = log.lock().unwrap().iter().map(|l| l.split('(').next().unwrap_or("").to_string()).collect();
        let want_order: Vec<String> = want[1..].iter().map(|s| s.to_string()).collect();
        if r != want || order != want_order {
            return Some(format!("pipe! with 11 stages applied them in the order {:?} and returned {:?}", order, r));
        }
    }
    None
}

pub fn make_pipe(seed: u64, index: u64) -> Pipe {
    let mut c = Chooser::random(Rng::from_parts(&[seed, 0xE2, index]));
    gen_pipeline(&mut c)
}

pub fn run(o: &Opts, rep: &mut Report) {
    let known = load_known(&o.known);
    let total: u64 = o.cases.unwrap_or(match (o.prop.as_str(), o.tier.as_str()) {
        ("C14", "thorough") => 1_000_000,
        ("C14", _) => 60_000,
        (_, "thorough") => 3_000_000,
        _ => 200_000,
    });
    let nthreads = o.threads.max(1);
    let seed = o.seed;
    let prop = o.prop.clone();
    if prop != "C14" {
        if let Some(d) = pipe_macro_test() {
            rep.add_violation(&prop, "pipe/not-left-to-right-application", &d, "E2m:pipe-macro", J::s(&d));
        }
        rep.bump("pipe-macro-left-to-right-test", 1);
    }
    let mut reports: Vec<Report> = vec![];
    std::thread::scope(|s| {
        let mut hs = vec![];
        for t in 0..nthreads {
            let known = known.clone();
            let prop = prop.clone();
            hs.push(s.spawn(move || {
                let mut rep = Report::default();
                let mut i = t as u64;
                while i < total {
                    let pipe = make_pipe(seed, i);
                    let names = pipe_stage_names(&pipe);
                    if prop == "C13" && !names.iter().any(|n| n.starts_with("same source value")) {
                        // C13 looks only at pipelines in which one source value is subscribed repeatedly
                        i += nthreads as u64;
                        continue;
                    }
                    let out = run_one(&pipe);
                    let id = format!("E2:{}:{}:{}", prop, seed, i);
                    rep.evaluations += 1;
                    rep.events += out.events;
                    let e = rep.per_op.entry("pipeline".into()).or_insert([0; 3]);
                    e[0] += 1;
                    e[2] += out.events;
                    // non-trivial: at least one element reached f or a leaf was advanced more than once
                    if !out.want.is_empty() || out.want_calls.iter().any(|c| *c > 1) {
                        e[1] += 1;
                        rep.nontrivial_cases += 1;
                        rep.nontrivial.insert(out.hash);
                    }
                    for st in names {
                        rep.bump(&format!("stage {}", st), 1);
                    }
                    if out.want_calls.iter().zip(pipe_unbounded(&pipe)).any(|(_, u)| u) {
                        rep.bump("pipelines over an unbounded iterator", 1);
                    }
                    if t == 0 && rep.samples.len() < 4 && out.want.len() >= 2 {
                        rep.samples.push(outcome_json(&out).set("case_id", J::s(&id)));
                    }
                    if prop == "C14" {
                        // demand conservation at the output of a whole pull pipeline (every stage is
                        // one of the operators C14 names, every leaf is from_iter, the sink is
                        // for_each: one Pull per message received): at quiescence every Pull has been
                        // answered, i.e. the (finite) pipeline has delivered its end
                        if let Some(done) = out.completed {
                            rep.bump("pipelines: demand at the output judged", 1);
                            if !done {
                                let sig = "pipeline/pull-unanswered-at-quiescence".to_string();
                                let d = format!(
                                    "for_each sent {} Pulls and received {} Data and no end: its last Pull was never answered ({})",
                                    out.demand.0,
                                    out.demand.1,
                                    pipe.show()
                                );
                                if let Some(k) = known.iter().find(|k| k.signature == sig && k.property == prop) {
                                    let e = rep.known_hits.entry(sig).or_insert((0, k.text.clone()));
                                    e.0 += 1;
                                } else {
                                    rep.add_violation(&prop, &sig, &d, &id, outcome_json(&out));
                                }
                            }
                        }
                        if let Some(("HARNESS", _, detail)) = &out.verdict {
                            rep.harness_faults.push(format!("{} [{}]", detail, id));
                        }
                        i += nthreads as u64;
                        continue;
                    }
                    if let Some((p, kind, detail)) = &out.verdict {
                        if *p == "HARNESS" {
                            rep.harness_faults.push(format!("{} [{}]", detail, id));
                        } else if *p == prop || (prop == "C13" && *p == "C06") {
                            let sig = if prop == "C13" {
                                format!("pipeline/resubscribed-source-differs-from-fresh-one({})", kind)
                            } else {
                                format!("pipeline/{}", kind)
                            };
                            if let Some(k) = known.iter().find(|k| k.signature == sig && k.property == prop) {
                                let e = rep.known_hits.entry(sig).or_insert((0, k.text.clone()));
                                e.0 += 1;
                            } else {
                                rep.add_violation(&prop, &sig, detail, &id, outcome_json(&out));
                            }
                        }
                    }
                    i += nthreads as u64;
                }
                rep
            }));
        }
        for h in hs {
            match h.join() {
                Ok(r) => reports.push(r),
                Err(_) => {
                    let mut r = Report::default();
                    r.harness_faults.push("worker thread panicked".into());
                    reports.push(r);
                },
            }
        }
    });
    for r in reports {
        rep.merge(r);
    }
}

fn pipe_stage_names(p: &Pipe) -> Vec<&'static str> {
    use crate::pull::{Src0, Stage};
    let mut v = vec![];
    fn walk(p: &Pipe, v: &mut Vec<&'static str>) {
        match &p.src {
            Src0::Iter(_) => v.push("from_iter"),
            Src0::Concat(q) => {
                v.push("concat");
                q.iter().for_each(|x| walk(x, v));
            },
            Src0::Repeat(q, _) => {
                v.push("same source value subscribed repeatedly (concat)");
                walk(q, v);
            },
            Src0::SelfProduct(q) => {
                v.push("same source value subscribed again from inside its own deliveries (overlapping subscriptions)");
                walk(q, v);
            },
        }
        for s in &p.stages {
            match s {
                Stage::Map(..) => v.push("map"),
                Stage::Filter(..) => v.push("filter"),
                Stage::Scan(..) => v.push("scan"),
                Stage::Take(_) => v.push("take"),
                Stage::Skip(_) => v.push("skip"),
                Stage::Append(q) | Stage::Prepend(q) => {
                    v.push("concat");
                    q.iter().for_each(|x| walk(x, v));
                },
                Stage::FlatMap { .. } => v.push("map+flatten"),
                Stage::FlatMapShared(q) => {
                    v.push("same source value subscribed repeatedly (flatten)");
                    walk(q, v);
                },
            }
        }
    }
    walk(p, &mut v);
    v
}

fn pipe_unbounded(p: &Pipe) -> Vec<bool> {
    use crate::pull::Src0;
    match &p.src {
        Src0::Iter(i) => vec![i.len.is_none()],
        _ => vec![false],
    }
}

pub fn replay(_o: &Opts, parts: &[&str]) -> i32 {
    // E2:<prop>:<seed>:<index>
    if parts.len() < 4 {
        eprintln!("malformed case id");
        return 2;
    }
    let seed: u64 = parts[2].parse().unwrap_or(1);
    let index: u64 = parts[3].parse().unwrap_or(0);
    let pipe = make_pipe(seed, index);
    let out = run_one(&pipe);
    println!("{}", outcome_json(&out).pretty());
    if parts[1] == "C14" {
        return match out.completed {
            Some(false) => {
                println!(
                    "violation: C14 pull-unanswered-at-quiescence for_each sent {} Pulls, received {} Data and no end",
                    out.demand.0, out.demand.1
                );
                1
            },
            _ => 0,
        };
    }
    match &out.verdict {
        Some((p, kind, detail)) => {
            println!("violation: {} {} {}", p, kind, detail);
            1
        },
        None => 0,
    }
}
