//! Context classes for known-finding signatures. A signature is
//! `<operator>/<violation kind>[/<context class>]`; the context class is computed here from the
//! harness's own call-stack record so that only the specific situation of a recorded finding
//! is matched, never the property as a whole.

use crate::world::{Dir, Inner, Kind, Role, Violation};

pub fn classify(g: &Inner, v: &mut Violation) {
    if v.culprit == "flatten" && v.event >= 0 && v.context.is_empty() {
        // K3: the violation happens inside an emission of one of flatten's two upstreams that was
        // itself made from inside the stop (Terminate / Error sent up) of the other upstream
        let mut p = v.event;
        let mut emitter: i32 = -1;
        while p >= 0 {
            let pe = &g.events[p as usize];
            if let Role::Puppet(id, _) = g.edges[pe.edge as usize].role {
                if pe.dir == Dir::Down && matches!(pe.kind, Kind::Data | Kind::Terminate | Kind::Error) && emitter < 0 {
                    emitter = id as i32;
                } else if pe.dir == Dir::Up && matches!(pe.kind, Kind::Terminate | Kind::Error) && emitter >= 0 && emitter != id as i32 {
                    v.context = "sibling-emits-inside-upstream-stop".into();
                    break;
                }
            }
            p = pe.parent;
        }
    }
    if v.culprit == "share" && (v.kind == "delivery-after-terminal" || v.kind == "delivery-after-disposal") {
        // K1: the violating delivery belongs to an upstream emission frame that began before the
        // sink received its terminal / disposed: an interrupted outer fan-out of share resuming
        // after a nested one.
        if v.event >= 0 {
            let ev = &g.events[v.event as usize];
            let edge = &g.edges[ev.edge as usize];
            let limit_ev = if v.kind == "delivery-after-terminal" { edge.down_term_ev } else { edge.up_term_ev };
            if limit_ev >= 0 {
                let limit_t = g.events[limit_ev as usize].t_in;
                // nearest enclosing upstream emission (a puppet Down Data/terminal event)
                let mut p = ev.parent;
                while p >= 0 {
                    let pe = &g.events[p as usize];
                    if matches!(g.edges[pe.edge as usize].role, Role::Puppet(..))
                        && pe.dir == Dir::Down
                        && matches!(pe.kind, Kind::Data | Kind::Terminate | Kind::Error)
                    {
                        if pe.t_in < limit_t && n_live_share_sinks_at(g, pe.t_in) >= 2 {
                            v.context = "stale-outer-fanout".into();
                        }
                        break;
                    }
                    p = pe.parent;
                }
            }
        }
    }
}

fn n_live_share_sinks_at(g: &Inner, t: u32) -> usize {
    (0..g.edges.len())
        .filter(|e| matches!(g.edges[*e].role, Role::Probe(_)))
        .filter(|e| crate::oracles::times(g, *e).live_at(t))
        .count()
}
