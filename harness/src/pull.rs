//! E2: iterable programming. Instrumented iterators, random pull pipelines built from the real
//! operators, and a reference lazy list evaluator built on std::iter adaptors.

use crate::rng::Chooser;
use crate::seq::HarnessPanic;
use crate::tap::tap;
use crate::topo::{Src, V};
use crate::world::{Dir, Kind, Role, Val, World};
use std::sync::{
    atomic::{AtomicUsize, Ordering},
    Arc, Mutex,
};

/// An iterator over `start, start+1, ...` (bounded by `len` or unbounded) that counts its next()
/// calls. When attached to a world, every clone gets its own edge and logs each call.
pub struct CountIter {
    pub leaf: usize,
    pub start: i64,
    pub len: Option<usize>,
    pub pos: usize,
    pub calls: Arc<AtomicUsize>,
    pub budget: usize,
    pub world: Option<Arc<World>>,
    pub edge: Option<usize>,
    pub clones: Arc<AtomicUsize>,
}

impl std::fmt::Debug for CountIter {
    fn fmt(&self, f: &mut std::fmt::Formatter<'_>) -> std::fmt::Result {
        write!(f, "CountIter(leaf {}, start {}, len {:?})", self.leaf, self.start, self.len)
    }
}

impl CountIter {
    pub fn new(leaf: usize, start: i64, len: Option<usize>, world: Option<&Arc<World>>) -> Self {
        CountIter {
            leaf,
            start,
            len,
            pos: 0,
            calls: Arc::new(AtomicUsize::new(0)),
            budget: 60_000,
            world: world.cloned(),
            edge: None,
            clones: Arc::new(AtomicUsize::new(0)),
        }
    }
}

impl Clone for CountIter {
    fn clone(&self) -> Self {
        // from_iter clones the iterator once per subscription: each clone is one iterator instance
        let k = self.clones.fetch_add(1, Ordering::SeqCst);
        let edge = self.world.as_ref().map(|w| {
            w.new_edge(Role::Iter(self.leaf as u16, k as u16), format!("it{}#{}", self.leaf, k), "iter", "from_iter")
        });
        CountIter {
            leaf: self.leaf,
            start: self.start,
            len: self.len,
            pos: self.pos,
            calls: Arc::clone(&self.calls),
            budget: self.budget,
            world: self.world.clone(),
            edge,
            clones: Arc::clone(&self.clones),
        }
    }
}

impl Iterator for CountIter {
    type Item = i64;
    fn next(&mut self) -> Option<i64> {
        let c = self.calls.fetch_add(1, Ordering::SeqCst) + 1;
        if c > self.budget {
            std::panic::panic_any(HarnessPanic(format!(
                "iterator budget exceeded: leaf {} advanced {} times",
                self.leaf, c
            )));
        }
        let r = match self.len {
            Some(n) if self.pos >= n => None,
            _ => {
                let v = self.start + self.pos as i64;
                self.pos += 1;
                Some(v)
            },
        };
        if let (Some(w), Some(e)) = (&self.world, self.edge) {
            let v = r.map(Val::one).unwrap_or_else(Val::none);
            let _f = w.enter(e, Dir::Up, Kind::Pull, v, -1);
        }
        r
    }
    /// exact, like arrays, ranges and Vecs (a source must not use it to run ahead of its sink)
    fn size_hint(&self) -> (usize, Option<usize>) {
        match self.len {
            Some(n) => (n.saturating_sub(self.pos), Some(n.saturating_sub(self.pos))),
            None => (usize::MAX, None),
        }
    }
}

// ---------------------------------------------------------------------------------------------
// pipeline AST
// ---------------------------------------------------------------------------------------------

#[derive(Clone, Debug)]
pub enum Stage {
    /// x -> a*x + b
    Map(i64, i64),
    /// keep x with x mod m != r
    Filter(i64, i64),
    /// running fold: 0 = sum, 1 = max, 2 = acc*3 + x (order sensitive)
    Scan(u8, i64),
    Take(usize),
    Skip(usize),
    /// |s| concat!(s, others...)
    Append(Vec<Pipe>),
    /// |s| concat!(others..., s)
    Prepend(Vec<Pipe>),
    /// map(|x| from_iter(c*x .. c*x + (x mod lm)) |> inner stages) then flatten
    FlatMap { c: i64, lm: i64, inner: Vec<Stage> },
    /// |s| map(|_| shared.clone()) then flatten, where `shared` is one source value built once
    FlatMapShared(Box<Pipe>),
}

#[derive(Clone, Debug)]
pub struct IterSpec {
    pub leaf: usize,
    pub start: i64,
    pub len: Option<usize>,
}

#[derive(Clone, Debug)]
pub enum Src0 {
    Iter(IterSpec),
    Concat(Vec<Pipe>),
    /// { let s = Arc::new(pipe); concat!(s.clone(), .., s.clone()) }: one source value subscribed k
    /// times, each time from inside the completion of the previous subscription
    Repeat(Box<Pipe>, usize),
    /// { let s = Arc::new(pipe); pipe!(s.clone(), map(|a| map(|b| 7a + b)(s.clone())), flatten) }: one
    /// source value subscribed again from inside each of its own deliveries (subscriptions that
    /// overlap in time); the list function is xs.flat_map(|a| xs.map(|b| 7a + b))
    SelfProduct(Box<Pipe>),
}

#[derive(Clone, Debug)]
pub struct Pipe {
    pub src: Src0,
    pub stages: Vec<Stage>,
}

fn scan_f(kind: u8, acc: i64, x: i64) -> i64 {
    match kind {
        0 => acc.wrapping_add(x),
        1 => acc.max(x),
        _ => acc.wrapping_mul(3).wrapping_add(x),
    }
}

impl Stage {
    pub fn show(&self) -> String {
        match self {
            Stage::Map(a, b) => format!("map({}x+{})", a, b),
            Stage::Filter(m, r) => format!("filter(x%{}!={})", m, r),
            Stage::Scan(k, s) => format!("scan({},{})", ["+", "max", "3a+x"][*k as usize], s),
            Stage::Take(n) => format!("take({})", n),
            Stage::Skip(n) => format!("skip({})", n),
            Stage::Append(v) => format!("concat!(_,{})", v.iter().map(|p| p.show()).collect::<Vec<_>>().join(",")),
            Stage::Prepend(v) => format!("concat!({},_)", v.iter().map(|p| p.show()).collect::<Vec<_>>().join(",")),
            Stage::FlatMapShared(p) => format!("map(_ -> shared[{}])|flatten", p.show()),
            Stage::FlatMap { c, lm, inner } => format!(
                "map(x->from_iter({}x..+x%{}){})|flatten",
                c,
                lm,
                inner.iter().map(|s| format!("|{}", s.show())).collect::<String>()
            ),
        }
    }
}

impl Pipe {
    pub fn show(&self) -> String {
        let s = match &self.src {
            Src0::Iter(i) => match i.len {
                Some(n) => format!("from_iter[{}..{}]", i.start, i.start + n as i64),
                None => format!("from_iter[{}..]", i.start),
            },
            Src0::Concat(v) => format!("concat!({})", v.iter().map(|p| p.show()).collect::<Vec<_>>().join(",")),
            Src0::Repeat(p, k) => format!("(let s = {}; concat!(s x{}))", p.show(), k),
            Src0::SelfProduct(p) => format!("(let s = {}; s|map(a -> s|map(b -> 7a+b))|flatten)", p.show()),
        };
        format!("{}{}", s, self.stages.iter().map(|s| format!("|{}", s.show())).collect::<String>())
    }
}

/// counters shared between a built pipeline and whoever inspects it
#[derive(Default)]
pub struct Counters {
    /// next() calls per leaf iterator
    pub leaves: Mutex<Vec<Arc<AtomicUsize>>>,
    /// next() calls summed over the inner iterators of each FlatMap stage (in stage creation order)
    pub inners: Mutex<Vec<Arc<AtomicUsize>>>,
    /// user closure invocations (map f, filter predicate, scan reducer)
    pub closures: AtomicUsize,
}

pub struct Ctx<'a> {
    pub world: Option<&'a Arc<World>>,
    pub counters: &'a Arc<Counters>,
}

fn leaf_counter(ctx: &Ctx<'_>, leaf: usize) -> Arc<AtomicUsize> {
    let mut l = ctx.counters.leaves.lock().unwrap();
    while l.len() <= leaf {
        l.push(Arc::new(AtomicUsize::new(0)));
    }
    Arc::clone(&l[leaf])
}

/// Build the pipeline out of the real crate operators.
pub fn build_pipe(p: &Pipe, ctx: &Ctx<'_>) -> Src<V> {
    let mut s: Src<V> = match &p.src {
        Src0::Iter(i) => {
            let mut it = CountIter::new(i.leaf, i.start, i.len, ctx.world);
            it.calls = leaf_counter(ctx, i.leaf);
            Arc::new(callbag::from_iter(it))
        },
        Src0::Concat(v) => {
            let srcs: Vec<Src<V>> = v.iter().map(|q| build_pipe(q, ctx)).collect();
            Arc::new(callbag::concat(srcs.into_boxed_slice()))
        },
        Src0::Repeat(q, k) => {
            let one = build_pipe(q, ctx);
            let srcs: Vec<Src<V>> = (0..*k).map(|_| Arc::clone(&one)).collect();
            Arc::new(callbag::concat(srcs.into_boxed_slice()))
        },
        Src0::SelfProduct(q) => {
            let one = build_pipe(q, ctx);
            let again = Arc::clone(&one);
            let counters = Arc::clone(ctx.counters);
            let mapped: Arc<callbag::Source<Src<V>>> = Arc::new(callbag::pipe!(
                one,
                callbag::map(move |a: i64| -> Src<V> {
                    counters.closures.fetch_add(1, Ordering::SeqCst);
                    let counters = Arc::clone(&counters);
                    Arc::new(callbag::pipe!(
                        Arc::clone(&again),
                        callbag::map(move |b: i64| {
                            counters.closures.fetch_add(1, Ordering::SeqCst);
                            a.wrapping_mul(7).wrapping_add(b)
                        })
                    ))
                })
            ));
            Arc::new(callbag::flatten(mapped))
        },
    };
    for st in &p.stages {
        s = apply_stage(st, s, ctx);
    }
    s
}

fn apply_stage(st: &Stage, s: Src<V>, ctx: &Ctx<'_>) -> Src<V> {
    let cnt = Arc::clone(ctx.counters);
    match st {
        Stage::Map(a, b) => {
            let (a, b) = (*a, *b);
            Arc::new(callbag::pipe!(
                s,
                callbag::map(move |x: i64| {
                    cnt.closures.fetch_add(1, Ordering::SeqCst);
                    x.wrapping_mul(a).wrapping_add(b)
                })
            ))
        },
        Stage::Filter(m, r) => {
            let (m, r) = (*m, *r);
            Arc::new(callbag::pipe!(
                s,
                callbag::filter(move |x: &i64| {
                    cnt.closures.fetch_add(1, Ordering::SeqCst);
                    x.rem_euclid(m) != r
                })
            ))
        },
        Stage::Scan(k, seed) => {
            let k = *k;
            Arc::new(callbag::pipe!(
                s,
                callbag::scan(
                    move |acc: i64, x: i64| {
                        cnt.closures.fetch_add(1, Ordering::SeqCst);
                        scan_f(k, acc, x)
                    },
                    *seed
                )
            ))
        },
        Stage::Take(n) => Arc::new(callbag::pipe!(s, callbag::take(*n))),
        Stage::Skip(n) => Arc::new(callbag::pipe!(s, callbag::skip(*n))),
        Stage::Append(v) => {
            let mut srcs: Vec<Src<V>> = vec![s];
            srcs.extend(v.iter().map(|q| build_pipe(q, ctx)));
            Arc::new(callbag::concat(srcs.into_boxed_slice()))
        },
        Stage::Prepend(v) => {
            let mut srcs: Vec<Src<V>> = v.iter().map(|q| build_pipe(q, ctx)).collect();
            srcs.push(s);
            Arc::new(callbag::concat(srcs.into_boxed_slice()))
        },
        Stage::FlatMapShared(p) => {
            let shared = build_pipe(p, ctx);
            let counters = Arc::clone(ctx.counters);
            let mapped: Arc<callbag::Source<Src<V>>> = Arc::new(callbag::pipe!(
                s,
                callbag::map(move |_x: i64| -> Src<V> {
                    counters.closures.fetch_add(1, Ordering::SeqCst);
                    Arc::clone(&shared)
                })
            ));
            Arc::new(callbag::flatten(mapped))
        },
        Stage::FlatMap { c, lm, inner } => {
            let (c, lm) = (*c, *lm);
            let inner = inner.clone();
            let inner_calls = Arc::new(AtomicUsize::new(0));
            ctx.counters.inners.lock().unwrap().push(Arc::clone(&inner_calls));
            let counters = Arc::clone(ctx.counters);
            let mapped: Arc<callbag::Source<Src<V>>> = Arc::new(callbag::pipe!(
                s,
                callbag::map(move |x: i64| -> Src<V> {
                    counters.closures.fetch_add(1, Ordering::SeqCst);
                    let mut it = CountIter::new(9_999, c.wrapping_mul(x), Some(x.rem_euclid(lm) as usize), None);
                    it.calls = Arc::clone(&inner_calls);
                    let mut s: Src<V> = Arc::new(callbag::from_iter(it));
                    let ctx = Ctx { world: None, counters: &counters };
                    for st in &inner {
                        s = apply_stage(st, s, &ctx);
                    }
                    s
                })
            ));
            Arc::new(callbag::flatten(mapped))
        },
    }
}

/// Reference: the same AST as a lazy std::iter pipeline over separate counting iterators.
pub fn build_ref(p: &Pipe, counters: &Arc<Counters>) -> Box<dyn Iterator<Item = i64>> {
    let ctx = Ctx { world: None, counters };
    let mut it: Box<dyn Iterator<Item = i64>> = match &p.src {
        Src0::Iter(i) => {
            let mut c = CountIter::new(i.leaf, i.start, i.len, None);
            c.calls = leaf_counter(&ctx, i.leaf);
            Box::new(c)
        },
        Src0::Concat(v) => {
            let mut acc: Box<dyn Iterator<Item = i64>> = Box::new(std::iter::empty());
            for q in v {
                acc = Box::new(acc.chain(build_ref(q, counters)));
            }
            acc
        },
        Src0::Repeat(q, k) => {
            let mut acc: Box<dyn Iterator<Item = i64>> = Box::new(std::iter::empty());
            for _ in 0..*k {
                acc = Box::new(acc.chain(build_ref(q, counters)));
            }
            acc
        },
        Src0::SelfProduct(q) => {
            let q2 = q.clone();
            let counters2 = Arc::clone(counters);
            Box::new(build_ref(q, counters).flat_map(move |a| {
                counters2.closures.fetch_add(1, Ordering::SeqCst);
                let counters3 = Arc::clone(&counters2);
                build_ref(&q2, &counters2).map(move |b| {
                    counters3.closures.fetch_add(1, Ordering::SeqCst);
                    a.wrapping_mul(7).wrapping_add(b)
                })
            }))
        },
    };
    for st in &p.stages {
        it = ref_stage(st, it, counters);
    }
    it
}

fn ref_stage(st: &Stage, it: Box<dyn Iterator<Item = i64>>, counters: &Arc<Counters>) -> Box<dyn Iterator<Item = i64>> {
    let cnt = Arc::clone(counters);
    match st {
        Stage::Map(a, b) => {
            let (a, b) = (*a, *b);
            Box::new(it.map(move |x| {
                cnt.closures.fetch_add(1, Ordering::SeqCst);
                x.wrapping_mul(a).wrapping_add(b)
            }))
        },
        Stage::Filter(m, r) => {
            let (m, r) = (*m, *r);
            Box::new(it.filter(move |x| {
                cnt.closures.fetch_add(1, Ordering::SeqCst);
                x.rem_euclid(m) != r
            }))
        },
        Stage::Scan(k, seed) => {
            let k = *k;
            Box::new(it.scan(*seed, move |acc, x| {
                cnt.closures.fetch_add(1, Ordering::SeqCst);
                *acc = scan_f(k, *acc, x);
                Some(*acc)
            }))
        },
        Stage::Take(n) => Box::new(it.take(*n)),
        Stage::Skip(n) => Box::new(it.skip(*n)),
        Stage::Append(v) => {
            let mut acc = it;
            for q in v {
                acc = Box::new(acc.chain(build_ref(q, counters)));
            }
            acc
        },
        Stage::Prepend(v) => {
            let mut acc: Box<dyn Iterator<Item = i64>> = Box::new(std::iter::empty());
            for q in v {
                acc = Box::new(acc.chain(build_ref(q, counters)));
            }
            Box::new(acc.chain(it))
        },
        Stage::FlatMapShared(p) => {
            let p = p.clone();
            let counters = Arc::clone(counters);
            Box::new(it.flat_map(move |_x| {
                counters.closures.fetch_add(1, Ordering::SeqCst);
                build_ref(&p, &counters)
            }))
        },
        Stage::FlatMap { c, lm, inner } => {
            let (c, lm) = (*c, *lm);
            let inner = inner.clone();
            let inner_calls = Arc::new(AtomicUsize::new(0));
            counters.inners.lock().unwrap().push(Arc::clone(&inner_calls));
            let counters = Arc::clone(counters);
            Box::new(it.flat_map(move |x| {
                counters.closures.fetch_add(1, Ordering::SeqCst);
                let mut ci = CountIter::new(9_999, c.wrapping_mul(x), Some(x.rem_euclid(lm) as usize), None);
                ci.calls = Arc::clone(&inner_calls);
                let mut s: Box<dyn Iterator<Item = i64>> = Box::new(ci);
                for st in &inner {
                    s = ref_stage(st, s, &counters);
                }
                s
            }))
        },
    }
}

// ---------------------------------------------------------------------------------------------
// generation (terminating by construction)
// ---------------------------------------------------------------------------------------------

struct Gen<'a> {
    c: &'a mut Chooser,
    next_leaf: usize,
}

/// `bounded` = the stream entering this position is known to be finite
fn gen_stages(g: &mut Gen<'_>, n: usize, mut finite: bool, depth: usize) -> (Vec<Stage>, bool) {
    let mut v = vec![];
    for _ in 0..n {
        // a hard cap on the number of leaf iterators keeps the programs small
        let pick = if g.next_leaf >= 7 { g.c.choose(6) } else { g.c.choose(if depth > 0 { 10 } else { 7 }) };
        let st = match pick {
            0 => Stage::Map([1, 2, 3, -1][g.c.choose(4)], g.c.choose(5) as i64),
            1 => {
                let m = 2 + g.c.choose(3) as i64;
                Stage::Filter(m, g.c.choose(m as usize) as i64)
            },
            2 => Stage::Scan(g.c.choose(3) as u8, [0, 1, 10][g.c.choose(3)]),
            3 | 4 => {
                finite = true;
                // the stream entering gen_stages is always finite, so a count beyond every length
                // (and beyond the width of a narrower integer) is harmless here
                if g.c.chance(1, 10) { Stage::Take(boundary_count(g.c)) } else { Stage::Take(1 + g.c.choose(6)) }
            },
            5 => if g.c.chance(1, 8) { Stage::Skip(boundary_count(g.c)) } else { Stage::Skip(g.c.choose(5)) },
            6 => {
                // the running stream must be finite before something is appended, or the rest never runs
                // (that is fine semantically, but then an unbounded tail would need a dominating take)
                let k = 1 + g.c.choose(2);
                let others: Vec<Pipe> = (0..k).map(|_| gen_pipe(g, depth.saturating_sub(1), true)).collect();
                if g.c.chance(1, 2) {
                    Stage::Append(others)
                } else {
                    Stage::Prepend(others)
                }
            },
            9 => Stage::FlatMapShared(Box::new(gen_pipe(g, 0, true))),
            _ => {
                let ni = g.c.choose(3);
                // inner stages must keep inner streams finite: they are (bounded ranges)
                let (inner, _) = gen_stages_simple(g, ni);
                Stage::FlatMap { c: [1, 2, 10][g.c.choose(3)], lm: 1 + g.c.choose(4) as i64, inner }
            },
        };
        v.push(st);
    }
    (v, finite)
}

/// counts at and just beyond the widths of the narrower integer types (a count that is stored or
/// compared in fewer bits than `usize` goes wrong exactly there)
pub fn boundary_count(c: &mut Chooser) -> usize {
    let base: usize = [1 << 8, 1 << 16, 1 << 31, 1 << 32, 1 << 40, 3 << 32, usize::MAX - 3][c.choose(7)];
    match c.choose(3) {
        0 => base.wrapping_sub(1).max(1),
        1 => base,
        _ => base.saturating_add(1 + c.choose(3)),
    }
}

fn gen_stages_simple(g: &mut Gen<'_>, n: usize) -> (Vec<Stage>, bool) {
    let mut v = vec![];
    for _ in 0..n {
        let st = match g.c.choose(5) {
            0 => Stage::Map([1, 2, -1][g.c.choose(3)], g.c.choose(3) as i64),
            1 => {
                let m = 2 + g.c.choose(2) as i64;
                Stage::Filter(m, g.c.choose(m as usize) as i64)
            },
            2 => Stage::Scan(g.c.choose(3) as u8, 0),
            3 => Stage::Take(1 + g.c.choose(3)),
            _ => Stage::Skip(g.c.choose(3)),
        };
        v.push(st);
    }
    (v, true)
}

fn gen_pipe(g: &mut Gen<'_>, depth: usize, must_be_finite: bool) -> Pipe {
    let unbounded = !must_be_finite && g.c.chance(1, 4);
    let src = if depth > 0 && g.next_leaf < 7 && g.c.chance(1, 5) {
        let k = g.c.choose(4);
        Src0::Concat((0..k).map(|_| gen_pipe(g, depth - 1, true)).collect())
    } else if depth > 0 && g.next_leaf < 7 && g.c.chance(1, 6) {
        Src0::Repeat(Box::new(gen_pipe(g, depth - 1, true)), 2 + g.c.choose(2))
    } else if depth > 0 && g.next_leaf < 7 && g.c.chance(1, 8) {
        Src0::SelfProduct(Box::new(gen_pipe(g, depth - 1, true)))
    } else {
        let leaf = g.next_leaf;
        g.next_leaf += 1;
        let len = if unbounded {
            None
        } else if g.c.chance(1, 12) {
            // now and then a long source (hundreds of items: long histories through every stage)
            Some([40, 70, 130, 300][g.c.choose(4)])
        } else {
            Some([0, 1, 2, 3, 5, 8, 13][g.c.choose(7)])
        };
        Src0::Iter(IterSpec { leaf, start: [0, 1, 7, 100][g.c.choose(4)], len })
    };
    let is_unbounded = matches!(&src, Src0::Iter(i) if i.len.is_none());
    let n = g.c.choose(6);
    let (mut stages, _) = if is_unbounded {
        // a take must dominate the unbounded leaf, and every filter between the leaf and that take
        // must pass infinitely often (x mod m != r always does for m >= 2): put the take early
        let before = g.c.choose(2);
        let (mut a, _) = gen_stages_unbounded_prefix(g, before);
        a.push(Stage::Take(1 + g.c.choose(6)));
        let (b, f) = gen_stages(g, n.saturating_sub(before + 1), true, depth);
        a.extend(b);
        (a, f)
    } else {
        gen_stages(g, n, true, depth)
    };
    if stages.len() > 6 {
        stages.truncate(6);
    }
    Pipe { src, stages }
}

fn gen_stages_unbounded_prefix(g: &mut Gen<'_>, n: usize) -> (Vec<Stage>, bool) {
    let mut v = vec![];
    for _ in 0..n {
        let st = match g.c.choose(4) {
            0 => Stage::Map([1, 2, 3][g.c.choose(3)], g.c.choose(5) as i64),
            1 => {
                let m = 2 + g.c.choose(3) as i64;
                Stage::Filter(m, g.c.choose(m as usize) as i64)
            },
            2 => Stage::Scan(0, 0),
            _ => Stage::Skip(g.c.choose(5)),
        };
        v.push(st);
    }
    (v, false)
}

pub fn gen_pipeline(c: &mut Chooser) -> Pipe {
    let mut g = Gen { c, next_leaf: 0 };
    let depth = g.c.choose(3);
    gen_pipe(&mut g, depth, false)
}

pub fn n_leaves(p: &Pipe) -> usize {
    fn walk(p: &Pipe, m: &mut usize) {
        match &p.src {
            Src0::Iter(i) => *m = (*m).max(i.leaf + 1),
            Src0::Concat(v) => v.iter().for_each(|q| walk(q, m)),
            Src0::Repeat(q, _) | Src0::SelfProduct(q) => walk(q, m),
        }
        for s in &p.stages {
            if let Stage::Append(v) | Stage::Prepend(v) = s {
                v.iter().for_each(|q| walk(q, m));
            }
            if let Stage::FlatMapShared(q) = s {
                walk(q, m);
            }
        }
    }
    let mut m = 0;
    walk(p, &mut m);
    m
}

/// Wrap the pipeline's output in a tap (so completion and demand are observable) and run
/// `for_each` over it. Returns (values seen by f, world).
pub fn run_pipeline(p: &Pipe, counters: &Arc<Counters>) -> (Vec<i64>, Arc<World>) {
    let world = World::new();
    world.begin_step(0);
    let ctx = Ctx { world: Some(&world), counters };
    let out = build_pipe(p, &ctx);
    let out = tap(&world, 0, "out", "pipeline", "for_each", out);
    let seen = Arc::new(Mutex::new(vec![]));
    {
        let seen = Arc::clone(&seen);
        callbag::pipe!(out, callbag::for_each(move |x: i64| seen.lock().unwrap().push(x)));
    }
    let v = seen.lock().unwrap().clone();
    (v, world)
}
