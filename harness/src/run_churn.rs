//! E1c: long histories of sinks attaching to and detaching from ONE shared source (C12), checked
//! online against a reference model (the set of attached sinks).
//!
//! The event-log engine E1 keeps the whole history of a case and judges it with predicates over
//! the log, which bounds a case to a few hundred env steps. Reference counting, slot reuse and
//! identity bookkeeping in `share` can go wrong only after many attach/detach cycles on one value
//! (a counter that wraps, a list that is not compacted, a stale entry that is hit again), so this
//! engine trades the log for a constant-size model and runs histories of up to hundreds of
//! thousands of cycles: after every driver operation the monitor compares what the sinks and the
//! upstream source observed during that operation with what the model owes them.

use crate::json::J;
use crate::report::{load_known, Report};
use crate::rng::Rng;
use crate::Opts;
use callbag::{Message, Sink, Source};
use never::Never;
use std::sync::atomic::{AtomicU64, AtomicUsize, Ordering};
use std::sync::{Arc, Mutex};

type V = i64;

#[derive(Debug)]
struct ChurnErr;
impl std::fmt::Display for ChurnErr {
    fn fmt(&self, f: &mut std::fmt::Formatter<'_>) -> std::fmt::Result {
        write!(f, "churn source failed")
    }
}
impl std::error::Error for ChurnErr {}

/// one subscription of the upstream source
struct UpSub {
    /// dropped once the subscription is over (keeps a long run's memory flat)
    sink: Mutex<Option<Arc<Sink<V>>>>,
    pulls: AtomicUsize,
    stops: AtomicUsize,
    ended: std::sync::atomic::AtomicBool,
    /// number of stops received when the source ended by itself
    stops_when_ended: AtomicUsize,
}

impl UpSub {
    fn send(&self, m: Message<V, Never>) {
        let s = self.sink.lock().unwrap().clone();
        if let Some(s) = s {
            s(m);
        }
    }
}

struct Up {
    subs: Mutex<Vec<Arc<UpSub>>>,
}

impl Up {
    fn source(self: &Arc<Self>) -> Arc<Source<V>> {
        let me = Arc::clone(self);
        Arc::new(
            (move |message: Message<Never, V>| {
                if let Message::Handshake(sink) = message {
                    let sub = Arc::new(UpSub {
                        sink: Mutex::new(Some(sink)),
                        pulls: AtomicUsize::new(0),
                        stops: AtomicUsize::new(0),
                        ended: std::sync::atomic::AtomicBool::new(false),
                        stops_when_ended: AtomicUsize::new(0),
                    });
                    me.subs.lock().unwrap().push(Arc::clone(&sub));
                    let tb: Arc<Source<V>> = {
                        let sub = Arc::clone(&sub);
                        Arc::new(
                            (move |m: Message<Never, V>| match m {
                                Message::Pull => {
                                    sub.pulls.fetch_add(1, Ordering::SeqCst);
                                },
                                Message::Terminate | Message::Error(_) => {
                                    sub.stops.fetch_add(1, Ordering::SeqCst);
                                    *sub.sink.lock().unwrap() = None;
                                },
                                _ => {},
                            })
                            .into(),
                        )
                    };
                    sub.send(Message::Handshake(tb));
                }
            })
            .into(),
        )
    }
    fn n_subs(&self) -> usize {
        self.subs.lock().unwrap().len()
    }
    fn last(&self) -> Option<Arc<UpSub>> {
        self.subs.lock().unwrap().last().cloned()
    }
}

struct CSink {
    id: usize,
    greeted: AtomicUsize,
    data: AtomicUsize,
    last: std::sync::atomic::AtomicI64,
    terminals: AtomicUsize,
    last_terminal_is_error: std::sync::atomic::AtomicBool,
    /// set by the driver when this sink has left (detached itself or received a terminal)
    gone: std::sync::atomic::AtomicBool,
    /// one talkback per live subscription of this sink (the same sink value may be attached twice)
    talkbacks: Mutex<Vec<Arc<Source<V>>>>,
    /// the one sink value that is handed to the shared source at every attach of this sink
    me: Mutex<Option<Arc<Sink<V>>>>,
    /// deliveries that reached a sink that was not attached any more: (sink id, what)
    stray: Arc<Mutex<Vec<(usize, String)>>>,
}

impl CSink {
    fn sink(self: &Arc<Self>) -> Arc<Sink<V>> {
        if let Some(s) = self.me.lock().unwrap().clone() {
            return s;
        }
        let s = self.make_sink();
        *self.me.lock().unwrap() = Some(Arc::clone(&s));
        s
    }

    fn forget(&self) {
        self.talkbacks.lock().unwrap().clear();
        *self.me.lock().unwrap() = None;
    }

    fn make_sink(self: &Arc<Self>) -> Arc<Sink<V>> {
        let me = Arc::clone(self);
        Arc::new(
            (move |m: Message<V, Never>| {
                if me.gone.load(Ordering::SeqCst) {
                    let what = match &m {
                        Message::Handshake(_) => "Handshake".to_string(),
                        Message::Data(d) => format!("Data({})", d),
                        Message::Terminate => "Terminate".to_string(),
                        Message::Error(_) => "Error".to_string(),
                        Message::Pull => "Pull".to_string(),
                    };
                    let mut s = me.stray.lock().unwrap();
                    if s.len() < 8 {
                        s.push((me.id, what));
                    }
                    return;
                }
                match m {
                    Message::Handshake(tb) => {
                        me.greeted.fetch_add(1, Ordering::SeqCst);
                        me.talkbacks.lock().unwrap().push(tb);
                    },
                    Message::Data(d) => {
                        me.data.fetch_add(1, Ordering::SeqCst);
                        me.last.store(d, Ordering::SeqCst);
                    },
                    Message::Terminate => {
                        me.terminals.fetch_add(1, Ordering::SeqCst);
                        me.last_terminal_is_error.store(false, Ordering::SeqCst);
                    },
                    Message::Error(_) => {
                        me.terminals.fetch_add(1, Ordering::SeqCst);
                        me.last_terminal_is_error.store(true, Ordering::SeqCst);
                    },
                    Message::Pull => {},
                }
            })
            .into(),
        )
    }
}

#[derive(Clone, Debug)]
pub struct ChurnPlan {
    pub cycles: usize,
    pub resident: bool,
    pub max_attached: usize,
    pub end_every: usize,
}

pub struct ChurnOutcome {
    pub ops: u64,
    pub attaches: u64,
    pub max_attaches_on_one_subscription: u64,
    pub upstream_subscriptions: u64,
    pub data: u64,
    pub violation: Option<(&'static str, String)>,
    pub tail: Vec<String>,
}

pub fn plan_for(seed: u64, index: u64, thorough: bool) -> (ChurnPlan, Rng) {
    let mut r = Rng::from_parts(&[seed, 12, 0xC4, index]);
    let sizes: &[usize] = if thorough { &[50, 500, 5_000, 70_000, 140_000, 300_000] } else { &[50, 500, 5_000, 70_000, 140_000] };
    // index 0..: the sizes in turn, so that every run of the check contains the long ones
    let cycles = sizes[(index as usize) % sizes.len()] + r.below(17);
    let resident = r.below(3) != 0;
    let max_attached = 1 + r.below(4);
    let end_every = if resident { 0 } else { [0, 40, 400][r.below(3)] };
    (ChurnPlan { cycles, resident, max_attached, end_every }, r)
}

/// `sink_side_only` (the C04 reading of the same histories): only what share does to its upstream
/// as a sink is judged - every upstream subscription is told to stop at most once, never after it
/// ended by itself, and none is left running when every sink has gone. A C12 matter (a datum
/// missed, an early disposal) ends the history there, because after it the model no longer knows
/// what a conformant source may still do; the sinks then leave and the C04 clauses are evaluated.
pub fn run_plan(plan: &ChurnPlan, mut r: Rng, sink_side_only: bool) -> ChurnOutcome {
    let up = Arc::new(Up { subs: Mutex::new(vec![]) });
    let shared: Arc<Source<V>> = Arc::new(callbag::share(up.source()));
    let stray: Arc<Mutex<Vec<(usize, String)>>> = Arc::new(Mutex::new(vec![]));
    let mut attached: Vec<Arc<CSink>> = vec![];
    let mut next_id = 0usize;
    let mut next_val: V = 0;
    let mut out = ChurnOutcome {
        ops: 0,
        attaches: 0,
        max_attaches_on_one_subscription: 0,
        upstream_subscriptions: 0,
        data: 0,
        violation: None,
        tail: vec![],
    };
    let mut attaches_this_sub = 0u64;
    let mut tail: std::collections::VecDeque<String> = std::collections::VecDeque::new();
    let mut up_live = false;
    let counter = AtomicU64::new(0);
    let mut note = |tail: &mut std::collections::VecDeque<String>, s: String| {
        let n = counter.fetch_add(1, Ordering::SeqCst);
        if tail.len() >= 40 {
            tail.pop_front();
        }
        tail.push_back(format!("#{} {}", n, s));
    };
    let mut pending: Option<(&'static str, String)> = None;
    macro_rules! fail {
        ($kind:expr, $($arg:tt)*) => {{
            if pending.is_none() {
                pending = Some(($kind, format!($($arg)*)));
            }
            break;
        }};
    }
    let mk_sink = |id: usize| -> Arc<CSink> {
        Arc::new(CSink {
            id,
            greeted: AtomicUsize::new(0),
            data: AtomicUsize::new(0),
            last: std::sync::atomic::AtomicI64::new(-1),
            terminals: AtomicUsize::new(0),
            last_terminal_is_error: std::sync::atomic::AtomicBool::new(false),
            gone: std::sync::atomic::AtomicBool::new(false),
            talkbacks: Mutex::new(vec![]),
            me: Mutex::new(None),
            stray: Arc::clone(&stray),
        })
    };
    let mut cycles_done = 0usize;
    let mut resident_attached = false;
    while cycles_done < plan.cycles && pending.is_none() {
        out.ops += 1;
        // choose an operation
        let n = attached.len();
        let can_detach = if plan.resident { n > 1 } else { n > 0 };
        let op = if plan.resident && !resident_attached {
            0
        } else {
            let roll = r.below(100);
            if n == 0 {
                0
            } else if roll < 38 && n < plan.max_attached + if plan.resident { 1 } else { 0 } {
                0
            } else if roll < 76 && can_detach {
                1
            } else if roll < 90 {
                2
            } else if roll < 97 {
                3
            } else if plan.end_every > 0 && r.below(plan.end_every) == 0 {
                4
            } else {
                2
            }
        };
        match op {
            0 => {
                // attach a new sink - or, now and then, a sink value that is attached already (one
                // sink value holding two subscriptions, e.g. a logging sink attached twice)
                let twin = n >= 1 && r.below(12) == 0;
                let s = if twin {
                    let cand = Arc::clone(&attached[r.below(n)]);
                    if attached.iter().filter(|x| Arc::ptr_eq(x, &cand)).count() == 1 {
                        cand
                    } else {
                        let s = mk_sink(next_id);
                        next_id += 1;
                        s
                    }
                } else {
                    let s = mk_sink(next_id);
                    next_id += 1;
                    s
                };
                let greeted_before = s.greeted.load(Ordering::SeqCst);
                let subs_before = up.n_subs();
                note(&mut tail, format!("attach S{} ({} attached, upstream {})", s.id, n, if up_live { "live" } else { "not subscribed" }));
                shared(Message::Handshake(s.sink()));
                out.attaches += 1;
                let subs_after = up.n_subs();
                let want_new = if up_live { 0 } else { 1 };
                if subs_after - subs_before != want_new {
                    fail!(
                        "churn-upstream-subscription-count",
                        "S{} attached while {} sinks were attached (upstream {}): {} new upstream subscriptions, expected {}",
                        s.id,
                        n,
                        if up_live { "live" } else { "not subscribed" },
                        subs_after - subs_before,
                        want_new
                    );
                }
                if want_new == 1 {
                    out.upstream_subscriptions += 1;
                    attaches_this_sub = 0;
                }
                attaches_this_sub += 1;
                out.max_attaches_on_one_subscription = out.max_attaches_on_one_subscription.max(attaches_this_sub);
                up_live = true;
                if s.greeted.load(Ordering::SeqCst) - greeted_before != 1 {
                    fail!(
                        "churn-sink-not-greeted-once",
                        "S{} was greeted {} times during its attach",
                        s.id,
                        s.greeted.load(Ordering::SeqCst) - greeted_before
                    );
                }
                attached.push(s);
                resident_attached = true;
                cycles_done += 1;
            },
            1 => {
                // a sink detaches (never the resident one, which is attached[0])
                let lo = if plan.resident { 1 } else { 0 };
                let i = lo + r.below(n - lo);
                let s = attached.remove(i);
                let cur = up.last();
                let stops_before = cur.as_ref().map(|c| c.stops.load(Ordering::SeqCst)).unwrap_or(0);
                let with_error = r.below(4) == 0;
                note(&mut tail, format!("detach one subscription of S{} ({} subscriptions remain){}", s.id, attached.len(), if with_error { " with Error" } else { "" }));
                let tb = s.talkbacks.lock().unwrap().pop();
                let still = attached.iter().filter(|x| Arc::ptr_eq(x, &s)).count();
                if still == 0 {
                    s.gone.store(true, Ordering::SeqCst);
                }
                if let Some(tb) = tb {
                    if with_error {
                        tb(Message::Error(Arc::new(ChurnErr)));
                    } else {
                        tb(Message::Terminate);
                    }
                }
                if still == 0 {
                    s.forget();
                }
                let stops_after = cur.as_ref().map(|c| c.stops.load(Ordering::SeqCst)).unwrap_or(0);
                let last_left = attached.is_empty();
                if last_left {
                    if stops_after - stops_before != 1 {
                        fail!(
                            "churn-upstream-not-disposed-when-last-sink-left",
                            "S{} was the last attached sink; upstream was told to stop {} times during its detach",
                            s.id,
                            stops_after - stops_before
                        );
                    }
                    up_live = false;
                } else if stops_after != stops_before {
                    fail!(
                        "churn-upstream-disposed-while-sinks-attached",
                        "S{} detached, {} sinks are still attached, yet upstream was told to stop",
                        s.id,
                        attached.len()
                    );
                }
            },
            2 => {
                // the source emits: every attached sink receives it exactly once
                let cur = match up.last() {
                    Some(c) if up_live => c,
                    _ => continue,
                };
                let v = next_val;
                next_val += 1;
                let before: Vec<usize> = attached.iter().map(|s| s.data.load(Ordering::SeqCst)).collect();
                note(&mut tail, format!("source emits {} ({} attached)", v, attached.len()));
                cur.send(Message::Data(v));
                out.data += 1;
                for (s, b) in attached.iter().zip(before) {
                    let got = s.data.load(Ordering::SeqCst) - b;
                    // once per subscription this sink value holds
                    let owed = attached.iter().filter(|x| Arc::ptr_eq(x, s)).count();
                    if got != owed || s.last.load(Ordering::SeqCst) != v {
                        fail!(
                            "churn-datum-not-delivered-once-to-attached-sink",
                            "datum {} emitted while S{} held {} subscriptions: S{} received {} data during the emission (last value {})",
                            v,
                            s.id,
                            owed,
                            s.id,
                            got,
                            s.last.load(Ordering::SeqCst)
                        );
                    }
                }
            },
            3 => {
                // an attached sink pulls (exercised, not judged: C12 says nothing about how share
                // relays Pulls, and an implementation that coalesced them would be just as right)
                if !up_live {
                    continue;
                }
                let s = &attached[r.below(attached.len())];
                note(&mut tail, format!("S{} pulls", s.id));
                let tb = s.talkbacks.lock().unwrap().last().cloned();
                if let Some(tb) = tb {
                    tb(Message::Pull);
                }
            },
            _ => {
                // the source ends or fails: every attached sink receives that terminal once
                let cur = match up.last() {
                    Some(c) if up_live => c,
                    _ => continue,
                };
                let fails = r.below(2) == 0;
                note(&mut tail, format!("source {} ({} attached)", if fails { "fails" } else { "completes" }, attached.len()));
                cur.ended.store(true, Ordering::SeqCst);
                let stops_before = cur.stops.load(Ordering::SeqCst);
                cur.stops_when_ended.store(stops_before, Ordering::SeqCst);
                if fails {
                    cur.send(Message::Error(Arc::new(ChurnErr)));
                } else {
                    cur.send(Message::Terminate);
                }
                *cur.sink.lock().unwrap() = None;
                for s in attached.iter() {
                    let t = s.terminals.load(Ordering::SeqCst);
                    let owed = attached.iter().filter(|x| Arc::ptr_eq(x, s)).count();
                    if t != owed || s.last_terminal_is_error.load(Ordering::SeqCst) != fails {
                        fail!(
                            "churn-terminal-not-delivered-once-to-attached-sink",
                            "the source {} while S{} was attached: S{} received {} terminals",
                            if fails { "failed" } else { "completed" },
                            s.id,
                            s.id,
                            t
                        );
                    }
                }
                for s in attached.iter() {
                    s.gone.store(true, Ordering::SeqCst);
                    s.forget();
                }
                if cur.stops.load(Ordering::SeqCst) != stops_before {
                    fail!("churn-upstream-stopped-after-it-ended", "upstream ended by itself and was then told to stop");
                }
                attached.clear();
                up_live = false;
                resident_attached = false;
            },
        }
        // a sink that has left hears nothing more
        {
            let s = stray.lock().unwrap();
            if let Some((id, what)) = s.first() {
                let d = format!("S{} had left (detached or terminated) and then received {}", id, what);
                drop(s);
                fail!("churn-delivery-to-a-sink-that-left", "{}", d);
            }
        }
    }
    // wind down: every subscription that is still attached leaves (a sink may always do that)
    while let Some(s) = attached.pop() {
        let tb = s.talkbacks.lock().unwrap().pop();
        if !attached.iter().any(|x| Arc::ptr_eq(x, &s)) {
            s.gone.store(true, Ordering::SeqCst);
        }
        if let Some(tb) = tb {
            note(&mut tail, format!("wind-down: detach one subscription of S{}", s.id));
            tb(Message::Terminate);
        }
        if !attached.iter().any(|x| Arc::ptr_eq(x, &s)) {
            s.forget();
        }
    }
    // share as a sink of its upstream (C04): told to stop at most once, never after it ended by
    // itself, and no subscription left running once every sink has gone
    let mut sink_side: Option<(&'static str, String)> = None;
    for (k, u) in up.subs.lock().unwrap().iter().enumerate() {
        let stops = u.stops.load(Ordering::SeqCst);
        let ended = u.ended.load(Ordering::SeqCst);
        if stops > 1 {
            sink_side = Some(("churn-upstream-stopped-twice", format!("upstream subscription #{} was told to stop {} times", k, stops)));
            break;
        }
        if ended && stops > u.stops_when_ended.load(Ordering::SeqCst) {
            sink_side = Some(("churn-upstream-stopped-after-it-ended", format!("upstream subscription #{} ended by itself and was then told to stop", k)));
            break;
        }
        if !ended && stops == 0 {
            sink_side = Some((
                "churn-upstream-orphaned",
                format!("upstream subscription #{} is still running although every sink has left", k),
            ));
            break;
        }
    }
    out.violation = if sink_side_only {
        sink_side
    } else if pending.is_some() {
        pending
    } else {
        // "upstream is disposed exactly when the last attached sink detaches" also at the very end
        sink_side
    };
    if out.violation.is_some() {
        out.tail = tail.iter().cloned().collect();
    }
    out
}

pub fn run(o: &Opts, rep: &mut Report) {
    let known = load_known(&o.known);
    let thorough = o.tier == "thorough";
    let nthreads = o.threads.max(1) as u64;
    let total: u64 = if thorough { 40 * nthreads } else { 5 * nthreads.max(2) };
    let seed = o.seed;
    let mut reports: Vec<Report> = vec![];
    std::thread::scope(|s| {
        let mut hs = vec![];
        for t in 0..nthreads {
            let known = known.clone();
            let prop = o.prop.clone();
            hs.push(s.spawn(move || {
                let mut rep = Report::default();
                let mut i = t;
                while i < total {
                    let (plan, rng) = plan_for(seed, i, thorough);
                    let out = run_plan(&plan, rng, prop == "C04");
                    let id = format!("E1c:{}:{}:{}:{}", prop, seed, if thorough { "thorough" } else { "quick" }, i);
                    rep.evaluations += 1;
                    rep.events += out.ops;
                    let e = rep.per_op.entry("share churn".into()).or_insert([0; 3]);
                    e[0] += 1;
                    e[1] += 1;
                    e[2] += out.ops;
                    rep.nontrivial_cases += 1;
                    rep.nontrivial.insert(crate::rng::fnv_str(&format!("churn:{}:{}:{}", out.attaches, out.data, out.upstream_subscriptions)));
                    rep.bump("churn.attach", out.attaches);
                    rep.bump("churn.datum-fanout", out.data);
                    rep.bump("churn.upstream-subscriptions", out.upstream_subscriptions);
                    let key = "churn.most-attaches-on-one-live-subscription";
                    let cur = rep.exercised.get(key).copied().unwrap_or(0);
                    rep.exercised.insert(key.to_string(), cur.max(out.max_attaches_on_one_subscription));
                    if let Some((kind, detail)) = &out.violation {
                        let sig = format!("share/{}", kind);
                        if let Some(k) = known.iter().find(|k| k.signature == sig && k.property == prop) {
                            let e = rep.known_hits.entry(sig).or_insert((0, k.text.clone()));
                            e.0 += 1;
                        } else {
                            rep.add_violation(&prop, &sig, detail, &id, outcome_json(&plan, &out).set("case_id", J::s(&id)));
                        }
                    }
                    i += nthreads;
                }
                rep
            }));
        }
        for h in hs {
            match h.join() {
                Ok(r) => reports.push(r),
                Err(_) => {
                    let mut r = Report::default();
                    r.harness_faults.push("churn worker thread panicked".into());
                    reports.push(r);
                },
            }
        }
    });
    // exercised maxima are merged by addition in Report::merge; keep the maximum instead
    let key = "churn.most-attaches-on-one-live-subscription";
    let mx = reports.iter().map(|r| r.exercised.get(key).copied().unwrap_or(0)).max().unwrap_or(0);
    for mut r in reports {
        r.exercised.remove(key);
        rep.merge(r);
    }
    rep.exercised.insert(key.to_string(), mx);
}

fn outcome_json(plan: &ChurnPlan, out: &ChurnOutcome) -> J {
    J::obj()
        .set("plan", J::s(&format!("{:?}", plan)))
        .set("operations", J::i(out.ops))
        .set("attaches", J::i(out.attaches))
        .set("data_emitted", J::i(out.data))
        .set(
            "violation",
            match &out.violation {
                Some((k, d)) => J::s(&format!("{}: {}", k, d)),
                None => J::s("none"),
            },
        )
        .set("last_operations", J::arr(out.tail.iter().map(|l| J::s(l))))
}

/// case id: E1c:<C12|C04>:<seed>:<tier>:<index>
pub fn replay(_o: &Opts, parts: &[&str]) -> i32 {
    if parts.len() < 5 {
        eprintln!("malformed churn case id");
        return 2;
    }
    let seed: u64 = parts[2].parse().unwrap_or(1);
    let thorough = parts[3] == "thorough";
    let index: u64 = parts[4].parse().unwrap_or(0);
    let (plan, rng) = plan_for(seed, index, thorough);
    let out = run_plan(&plan, rng, parts[1] == "C04");
    println!("{}", outcome_json(&plan, &out).pretty());
    match &out.violation {
        Some((k, d)) => {
            println!("violation: {} {}", k, d);
            1
        },
        None => {
            println!("no violation in this execution");
            0
        },
    }
}
