//! E4: controlled thread interleavings. Real OS threads are serialised by a seeded scheduler that
//! is entered from the hooks placed before every shared-state access in merge / combine / take
//! (feature `verif` of the crate) and from yield points inside the harness sink.

use crate::rng::{Chooser, Rng};
use std::cell::RefCell;
use std::collections::BTreeMap;
use std::sync::{Arc, Condvar, Mutex};
use std::time::Duration;

#[derive(Clone, Copy, Debug, PartialEq, Eq)]
pub enum Status {
    /// created, not yet allowed to run
    Waiting,
    Runnable,
    Done,
    Cancelled,
}

pub enum Strategy {
    /// uniform among runnable threads at every yield point
    Random(Rng),
    /// stay on the current thread with probability 3/4
    Sticky(Rng),
    /// PCT: fixed random priorities, `d-1` priority change points
    Pct { rng: Rng, prio: Vec<u32>, change_at: Vec<usize> },
    /// DFS over schedules with at most `bound` preemptions; choices come from the chooser
    Enumerate { chooser: Chooser, bound: usize },
    /// no serialisation: threads run freely, the hook only injects small random delays
    Free,
}

pub struct SState {
    pub current: usize,
    pub status: Vec<Status>,
    pub strategy: Strategy,
    pub steps: usize,
    pub preemptions: usize,
    pub switches: usize,
    pub sched_hash: u64,
    pub site_hits: BTreeMap<String, u64>,
    pub preempted_at: BTreeMap<String, u64>,
    pub aborted: bool,
    pub trail: Vec<(usize, usize)>,
}

pub struct Sched {
    pub m: Mutex<SState>,
    pub cv: Condvar,
    pub free: bool,
}

thread_local! {
    pub static CUR: RefCell<Option<(Arc<Sched>, usize)>> = RefCell::new(None);
}

pub fn install_global_hook() {
    callbag::verif::set_hook(Some(Arc::new(|loc, _access| {
        let cur = CUR.with(|c| c.borrow().clone());
        if let Some((s, tid)) = cur {
            let site = format!("{}:{}", short_file(loc.file()), loc.line());
            s.yield_point(tid, &site);
        }
    })));
}

fn short_file(f: &str) -> &str {
    f.rsplit('/').next().unwrap_or(f)
}

/// yield point inside harness code (sink handlers)
pub fn yield_here(site: &str) {
    let cur = CUR.with(|c| c.borrow().clone());
    if let Some((s, tid)) = cur {
        s.yield_point(tid, site);
    }
}

pub fn set_current_thread(s: Option<(Arc<Sched>, usize)>) {
    CUR.with(|c| *c.borrow_mut() = s);
}

const WATCHDOG: Duration = Duration::from_secs(20);

impl Sched {
    pub fn new(n_threads: usize, strategy: Strategy) -> Arc<Sched> {
        let free = matches!(strategy, Strategy::Free);
        let mut status = vec![Status::Waiting; n_threads];
        status[0] = Status::Runnable;
        Arc::new(Sched {
            m: Mutex::new(SState {
                current: 0,
                status,
                strategy,
                steps: 0,
                preemptions: 0,
                switches: 0,
                sched_hash: crate::rng::FNV0,
                site_hits: BTreeMap::new(),
                preempted_at: BTreeMap::new(),
                aborted: false,
                trail: vec![],
            }),
            cv: Condvar::new(),
            free,
        })
    }

    fn lock(&self) -> std::sync::MutexGuard<'_, SState> {
        match self.m.lock() {
            Ok(g) => g,
            Err(p) => p.into_inner(),
        }
    }

    /// Allow thread `tid` to be scheduled from now on.
    pub fn enable(&self, tid: usize) {
        let mut g = self.lock();
        if g.status[tid] == Status::Waiting {
            g.status[tid] = Status::Runnable;
        }
        if self.free {
            self.cv.notify_all();
        }
    }

    /// Called first thing by a member thread. Returns false if the thread was cancelled.
    pub fn start(&self, tid: usize) -> bool {
        let mut g = self.lock();
        loop {
            if g.status[tid] == Status::Cancelled {
                return false;
            }
            if g.aborted {
                return g.status[tid] == Status::Runnable;
            }
            if self.free {
                if g.status[tid] == Status::Runnable {
                    return true;
                }
            } else if g.current == tid && g.status[tid] == Status::Runnable {
                return true;
            }
            let (ng, to) = match self.cv.wait_timeout(g, WATCHDOG) {
                Ok(x) => x,
                Err(p) => p.into_inner(),
            };
            g = ng;
            if to.timed_out() {
                g.aborted = true;
                self.cv.notify_all();
            }
        }
    }

    pub fn finish(&self, tid: usize) {
        let mut g = self.lock();
        g.status[tid] = Status::Done;
        if self.free || g.aborted {
            // cancel threads that were never enabled once nobody can enable them any more
            if tid == 0 {
                for s in g.status.iter_mut() {
                    if *s == Status::Waiting {
                        *s = Status::Cancelled;
                    }
                }
            }
            self.cv.notify_all();
            return;
        }
        if tid == 0 {
            // only the main thread enables others: whoever is still waiting will never run
            for s in g.status.iter_mut() {
                if *s == Status::Waiting {
                    *s = Status::Cancelled;
                }
            }
        }
        let runnable: Vec<usize> = (0..g.status.len()).filter(|i| g.status[*i] == Status::Runnable).collect();
        if !runnable.is_empty() {
            let next = pick(&mut g, &runnable, None);
            g.current = next;
            g.switches += 1;
            let h = &mut g.sched_hash;
            crate::rng::fnv(h, 0xF000 + next as u64);
        } else {
            g.current = usize::MAX;
        }
        self.cv.notify_all();
    }

    pub fn yield_point(&self, tid: usize, site: &str) {
        if self.free {
            // free-running stress: a short random spin now and then
            let spin = {
                let mut g = self.lock();
                *g.site_hits.entry(site.to_string()).or_insert(0) += 1;
                g.steps += 1;
                let s = g.steps as u64;
                // cheap hash of step and thread as the delay source
                let x = s.wrapping_mul(0x9E37_79B9_7F4A_7C15) ^ ((tid as u64) << 17);
                if x % 7 == 0 {
                    (x >> 8) % 200
                } else {
                    0
                }
            };
            for _ in 0..spin {
                std::hint::spin_loop();
            }
            return;
        }
        let mut g = self.lock();
        if g.aborted {
            return;
        }
        if g.current != tid {
            // a thread that is not the scheduled one reached a yield point: it was never handed the
            // baton (can only happen after an abort); let it run
            return;
        }
        *g.site_hits.entry(site.to_string()).or_insert(0) += 1;
        g.steps += 1;
        {
            let mut h = g.sched_hash;
            crate::rng::fnv(&mut h, tid as u64);
            for b in site.bytes() {
                crate::rng::fnv(&mut h, b as u64);
            }
            g.sched_hash = h;
        }
        let runnable: Vec<usize> = (0..g.status.len()).filter(|i| g.status[*i] == Status::Runnable).collect();
        if runnable.len() <= 1 {
            return;
        }
        let next = pick(&mut g, &runnable, Some(tid));
        if next == tid {
            return;
        }
        g.preemptions += 1;
        g.switches += 1;
        *g.preempted_at.entry(site.to_string()).or_insert(0) += 1;
        g.current = next;
        self.cv.notify_all();
        loop {
            if g.current == tid || g.aborted {
                return;
            }
            let (ng, to) = match self.cv.wait_timeout(g, WATCHDOG) {
                Ok(x) => x,
                Err(p) => p.into_inner(),
            };
            g = ng;
            if to.timed_out() {
                g.aborted = true;
                self.cv.notify_all();
                return;
            }
        }
    }
}

/// choose the next thread to run among `runnable`; `cur` is the yielding thread (None at a finish)
fn pick(g: &mut SState, runnable: &[usize], cur: Option<usize>) -> usize {
    let steps = g.steps;
    let preemptions = g.preemptions;
    match &mut g.strategy {
        Strategy::Random(r) => runnable[r.below(runnable.len())],
        Strategy::Sticky(r) => match cur {
            Some(c) if r.chance(3, 4) => c,
            _ => runnable[r.below(runnable.len())],
        },
        Strategy::Pct { rng, prio, change_at } => {
            if let Some(c) = cur {
                if change_at.contains(&steps) {
                    // demote the running thread below everybody else
                    let lowest = prio.iter().copied().min().unwrap_or(0);
                    prio[c] = lowest.saturating_sub(1 + rng.below(3) as u32);
                }
            }
            *runnable.iter().max_by_key(|t| prio[**t]).unwrap()
        },
        Strategy::Enumerate { chooser, bound } => {
            let mut options: Vec<usize> = vec![];
            match cur {
                Some(c) => {
                    options.push(c);
                    if preemptions < *bound {
                        options.extend(runnable.iter().copied().filter(|t| *t != c));
                    }
                },
                None => options.extend(runnable.iter().copied()),
            }
            let i = chooser.choose(options.len());
            options[i]
        },
        Strategy::Free => cur.unwrap_or(runnable[0]),
    }
}

pub fn take_trail(s: &Sched) -> Vec<(usize, usize)> {
    let mut g = s.lock();
    if let Strategy::Enumerate { chooser, .. } = &mut g.strategy {
        std::mem::take(&mut chooser.trail)
    } else {
        vec![]
    }
}
