//! Per-property oracles evaluated over the recorded event log after every env step and at the
//! end of a run. Each clause is a direct transcription of a clause of the property statement;
//! anything a statement leaves open is not checked.

use crate::puppet::{Fin, Mode};
use crate::seq::CaseSpec;
use crate::topo::{Built, Link, OpKind, Topo, UnOp};
use crate::world::{push_violation, Dir, EdgeId, Inner, Kind, Role, Val};
use std::collections::BTreeSet;

#[derive(Clone, Debug, Default)]
pub struct Which {
    pub c04: bool,
    pub c05: bool,
    pub c07: bool,
    pub c08: bool,
    pub c09: bool,
    pub c10: bool,
    pub c11: bool,
    pub c12: bool,
    pub c14: bool,
    pub c15: bool,
}

impl Which {
    pub fn all() -> Which {
        Which { c04: true, c05: true, c07: true, c08: true, c09: true, c10: true, c11: true, c12: true, c14: true, c15: true }
    }
    pub fn for_prop(p: &str) -> Which {
        let mut w = Which::default();
        match p {
            "C04" => w.c04 = true,
            "C05" => w.c05 = true,
            "C07" => w.c07 = true,
            "C08" => w.c08 = true,
            "C09" => w.c09 = true,
            "C10" => w.c10 = true,
            "C11" => w.c11 = true,
            "C12" => w.c12 = true,
            "C14" => w.c14 = true,
            "C15" => w.c15 = true,
            "C17" | "C20" | "ALL" => w = Which::all(),
            _ => {},
        }
        w
    }
}

#[derive(Default)]
pub struct State {
    pub next_ev: usize,
    pub reported: BTreeSet<String>,
    /// counters of oracle clause evaluations that were actually exercised (for evidence)
    pub exercised: std::collections::BTreeMap<&'static str, u64>,
}

const INF: u32 = u32::MAX;

#[derive(Clone, Copy, Debug)]
pub struct Times {
    pub sub_in: u32,
    pub greet_in: u32,
    pub greet_out: u32,
    pub greet_ev: i32,
    pub dterm_in: u32,
    pub dterm_ev: i32,
    pub uterm_in: u32,
    pub uterm_ev: i32,
}

pub fn times(g: &Inner, e: EdgeId) -> Times {
    let mut t = Times {
        sub_in: INF,
        greet_in: INF,
        greet_out: INF,
        greet_ev: -1,
        dterm_in: INF,
        dterm_ev: -1,
        uterm_in: INF,
        uterm_ev: -1,
    };
    for &i in &g.edges[e].events {
        let ev = &g.events[i as usize];
        match (ev.dir, ev.kind) {
            (Dir::Up, Kind::Handshake) => {
                if t.sub_in == INF {
                    t.sub_in = ev.t_in
                }
            },
            (Dir::Down, Kind::Handshake) => {
                if t.greet_in == INF {
                    t.greet_in = ev.t_in;
                    t.greet_out = ev.t_out;
                    t.greet_ev = i as i32;
                }
            },
            (Dir::Down, Kind::Terminate | Kind::Error) => {
                if t.dterm_in == INF {
                    t.dterm_in = ev.t_in;
                    t.dterm_ev = i as i32;
                }
            },
            (Dir::Up, Kind::Terminate | Kind::Error) => {
                if t.uterm_in == INF {
                    t.uterm_in = ev.t_in;
                    t.uterm_ev = i as i32;
                }
            },
            _ => {},
        }
    }
    t
}

impl Times {
    /// greeted, and neither side has ended the subscription, strictly before time t
    pub fn live_at(&self, t: u32) -> bool {
        self.greet_in < t && self.dterm_in >= t && self.uterm_in >= t
    }
    /// subscribed and not over strictly before t (greeted or not)
    pub fn open_at(&self, t: u32) -> bool {
        self.sub_in < t && self.dterm_in >= t && self.uterm_in >= t
    }
    pub fn over_at(&self, t: u32) -> bool {
        self.dterm_in < t || self.uterm_in < t
    }
}

pub fn puppet_edges(g: &Inner) -> Vec<EdgeId> {
    (0..g.edges.len()).filter(|i| matches!(g.edges[*i].role, Role::Puppet(..))).collect()
}

pub fn probe_edges(g: &Inner) -> Vec<EdgeId> {
    (0..g.edges.len()).filter(|i| matches!(g.edges[*i].role, Role::Probe(_))).collect()
}

pub fn edge_of_puppet(g: &Inner, p: usize, k: usize) -> Option<EdgeId> {
    (0..g.edges.len()).find(|i| g.edges[*i].role == Role::Puppet(p as u16, k as u16))
}

pub fn edge_of_probe(g: &Inner, p: usize) -> Option<EdgeId> {
    (0..g.edges.len()).find(|i| g.edges[*i].role == Role::Probe(p as u16))
}

/// share: the upstream subscription a sink is attached to = the latest one started before the
/// sink was greeted
pub fn share_upstream_of(g: &Inner, pe: EdgeId) -> Option<EdgeId> {
    let tg = times(g, pe).greet_in;
    if tg == INF {
        return None;
    }
    puppet_edges(g).into_iter().filter(|ue| times(g, *ue).sub_in < tg).max_by_key(|ue| times(g, *ue).sub_in)
}

pub fn any_upstream_live_at(g: &Inner, t: u32) -> bool {
    puppet_edges(g).into_iter().any(|e| times(g, e).live_at(t))
}

/// events on edge `e` with the given direction/kinds, in time order
fn evs(g: &Inner, e: EdgeId, dir: Dir, kinds: &[Kind]) -> Vec<usize> {
    g.edges[e]
        .events
        .iter()
        .map(|i| *i as usize)
        .filter(|i| g.events[*i].dir == dir && kinds.contains(&g.events[*i].kind))
        .collect()
}

fn within(g: &Inner, inner: usize, outer: usize) -> bool {
    let a = &g.events[inner];
    let b = &g.events[outer];
    a.t_in > b.t_in && a.t_in < b.t_out
}

/// nearest enclosing event (strict ancestor) satisfying `f`
fn ancestor(g: &Inner, ev: usize, f: impl Fn(usize) -> bool) -> Option<usize> {
    let mut p = g.events[ev].parent;
    while p >= 0 {
        if f(p as usize) {
            return Some(p as usize);
        }
        p = g.events[p as usize].parent;
    }
    None
}

/// the sink-side Pull (on a probe edge) a given upstream Pull is attributed to: the nearest
/// enclosing probe Pull, provided no sink delivery lies in between (a Pull issued by an operator
/// on its own while delivering is not attributed).
/// the Pull on edge `se` (the operator's output edge) a given upstream Pull is attributed to
fn attributed_pull_on(g: &Inner, ev: usize, se: EdgeId) -> Option<usize> {
    let mut p = g.events[ev].parent;
    while p >= 0 {
        let e = &g.events[p as usize];
        if e.edge as usize == se && e.dir == Dir::Up && e.kind == Kind::Pull {
            return Some(p as usize);
        }
        p = e.parent;
    }
    None
}

fn attributed_probe_pull(g: &Inner, ev: usize) -> Option<usize> {
    let mut p = g.events[ev].parent;
    while p >= 0 {
        let e = &g.events[p as usize];
        let role = g.edges[e.edge as usize].role;
        if matches!(role, Role::Probe(_)) && e.dir == Dir::Up && e.kind == Kind::Pull {
            return Some(p as usize);
        }
        p = e.parent;
    }
    None
}

fn report(
    g: &mut Inner,
    st: &mut State,
    props: &[&'static str],
    kind: &'static str,
    culprit: &str,
    edge: EdgeId,
    ev: i32,
    detail: String,
) {
    let key = format!("{}|{}|{}", props[0], kind, culprit);
    if st.reported.insert(key) {
        push_violation(g, props, kind, culprit, edge, ev, detail);
    }
}

fn bump(st: &mut State, k: &'static str) {
    *st.exercised.entry(k).or_insert(0) += 1;
}

pub fn after_step(b: &Built, spec: &CaseSpec, st: &mut State, w: &Which) {
    let mut g = b.world.lock();
    let g = &mut *g;
    let from = st.next_ev;
    let to = g.events.len();
    st.next_ev = to;
    if w.c04 {
        c04_step(b, g, st, from, to);
    }
    if w.c05 {
        c05_step(b, g, st, from, to);
    }
    match &b.topo {
        Topo::Unary(u) if w.c07 => c07_step(b, g, st, *u),
        // one evaluation per subscription of the output (the same output value may be subscribed
        // more than once; every subscription must satisfy the statement on its own)
        Topo::Merge(n) if w.c08 && *n >= 1 => {
            for o in 0..b.probes.len() {
                c08_step(b, g, st, *n, from, to, o)
            }
        },
        Topo::MergeDup(_) if w.c08 => {
            for o in 0..b.probes.len() {
                if let Some(se) = edge_of_probe(g, o) {
                    let mem = members_listed(g, &b.info.members, o);
                    c08_core(g, st, &b.op, se, mem, from, to);
                }
            }
        },
        Topo::Concat(n) if w.c09 && *n >= 1 => {
            for o in 0..b.probes.len() {
                c09_step(b, g, st, *n, from, to, o)
            }
        },
        Topo::Combine(n) if w.c10 => {
            for o in 0..b.probes.len() {
                c10_step(b, g, st, *n, from, to, o)
            }
        },
        Topo::Flatten(_) | Topo::FlattenRepeat(_) if w.c11 => {
            for o in 0..b.probes.len() {
                c11_step(b, g, st, from, to, o)
            }
        },
        Topo::Share(_) if w.c12 => c12_step(b, g, st, from, to),
        Topo::Tree(_) => tree_step(b, g, st, w, from, to),
        Topo::FromIter(_) if w.c15 => c15_step(b, g, st, from, to),
        _ => {},
    }
    if w.c14 && spec.credit_env {
        c14_step(b, g, st, false);
    }
}

pub fn at_end(b: &Built, spec: &CaseSpec, st: &mut State, w: &Which) {
    let mut g = b.world.lock();
    let g = &mut *g;
    if w.c04 || w.c05 {
        orphans(b, g, st, w);
    }
    if w.c14 && spec.credit_env {
        c14_step(b, g, st, true);
    }
}

fn output_over_for(g: &Inner, b: &Built, owner: i32, t: u32) -> bool {
    // share: the output is over when no sink is attached; others: the owning probe is over
    if matches!(b.topo, Topo::Share(_)) {
        let pes = probe_edges(g);
        !pes.iter().any(|e| times(g, *e).open_at(t))
    } else if owner >= 0 {
        match edge_of_probe(g, owner as usize) {
            Some(pe) => times(g, pe).over_at(t),
            None => false,
        }
    } else {
        false
    }
}

// ---------------------------------------------------------------------------------------------
// C04: structural rules that the edge monitors cannot see
// ---------------------------------------------------------------------------------------------

fn c04_step(b: &Built, g: &mut Inner, st: &mut State, from: usize, to: usize) {
    if matches!(b.topo, Topo::ForEach) {
        return;
    }
    for i in from..to {
        let ev = g.events[i].clone();
        let e = ev.edge as usize;
        let role = g.edges[e].role;
        // V4 / V5: upstream subscriptions
        if let (Role::Puppet(p, k), Dir::Up, Kind::Handshake) = (role, ev.dir, ev.kind) {
            let owner = g.edges[e].owner;
            let culprit = g.edges[e].below.clone();
            bump(st, "c04.subscription");
            let repeated_inner = (b.info.repeat_inner && p == 1) || (matches!(b.topo, Topo::MergeDup(_)) && p == 0);
            if !matches!(b.topo, Topo::Share(_)) && !repeated_inner {
                // at most once per subscription of the output
                let dup = (0..k).any(|kk| {
                    edge_of_puppet(g, p as usize, kk as usize).map(|ee| g.edges[ee].owner == owner).unwrap_or(false)
                });
                if dup {
                    report(
                        g,
                        st,
                        &["C04"],
                        "upstream-subscribed-twice",
                        &culprit,
                        e,
                        i as i32,
                        format!("P{} subscribed again for output subscription {}", p, owner),
                    );
                }
            }
            // in a composed topology "the output" of the subscribing operator is ITS output edge
            // (the tap below it), not the sink at the bottom: an operator that has not been told to
            // stop yet may still subscribe (e.g. while the operator below is relaying an Error)
            let over = match &b.topo {
                Topo::Tree(_) => {
                    let inst = b.info.ops.iter().find(|o| {
                        o.inputs.iter().any(|l| matches!(l, Link::Puppet(id) if *id == p as usize))
                            || matches!(o.kind, OpKind::Flatten(id) if id == p as usize)
                    });
                    match inst.and_then(|o| if owner >= 0 { edge_of_link(g, o.output, owner as usize) } else { None }) {
                        Some(oe) => times(g, oe).over_at(ev.t_in),
                        None => output_over_for(g, b, owner, ev.t_in),
                    }
                },
                _ => output_over_for(g, b, owner, ev.t_in),
            };
            if over {
                report(
                    g,
                    st,
                    &["C04"],
                    "upstream-subscribed-after-output-over",
                    &culprit,
                    e,
                    i as i32,
                    format!("P{} subscribed although output subscription {} is over", p, owner),
                );
            }
        }
        // pass-through of a sink Error (map/filter/scan/take/skip)
        if let (Topo::Unary(_), Role::Probe(pi), Dir::Up, Kind::Error | Kind::Terminate) =
            (&b.topo, role, ev.dir, ev.kind)
        {
            // the upstream subscription that belongs to this probe
            let up = puppet_edges(g).into_iter().find(|pe| g.edges[*pe].owner == pi as i32);
            if let Some(pe) = up {
                let t = times(g, pe);
                if t.live_at(ev.t_in) {
                    bump(st, "c04.relay");
                    let got: Vec<usize> = evs(g, pe, Dir::Up, &[Kind::Error, Kind::Terminate])
                        .into_iter()
                        .filter(|j| within(g, *j, i))
                        .collect();
                    let culprit = b.op.clone();
                    if got.is_empty() {
                        report(
                            g,
                            st,
                            &["C04"],
                            "disposal-not-relayed",
                            &culprit,
                            pe,
                            i as i32,
                            format!("sink sent {:?}, live upstream heard nothing during that call", ev.kind),
                        );
                    } else if ev.kind == Kind::Error {
                        let x = &g.events[got[0]];
                        if x.kind != Kind::Error || x.err != ev.err {
                            let d = format!(
                                "sink sent Error[err{}], upstream received {:?}[err{}]",
                                ev.err, x.kind, x.err
                            );
                            report(g, st, &["C04"], "sink-error-not-passed-through", &culprit, pe, got[0] as i32, d);
                        }
                    }
                }
            }
        }
    }
}

/// for_each as a sink: f sees every datum exactly once, in order; it pulls once when greeted and
/// once after every datum, and never otherwise (C04: "for_each obeys the sink side of the protocol").
fn for_each_end(b: &Built, g: &mut Inner, st: &mut State) {
    if b.puppets.len() != 1 {
        return;
    }
    let pe = match edge_of_puppet(g, 0, 0) {
        Some(e) => e,
        None => return,
    };
    let sent: Vec<i64> = evs(g, pe, Dir::Down, &[Kind::Data]).iter().map(|i| g.events[*i].val.a[0]).collect();
    let seen = b.foreach_seen.lock().unwrap().clone();
    bump(st, "c04.for_each");
    if sent != seen {
        report(g, st, &["C04"], "for_each-did-not-pass-every-datum-to-f", "for_each", pe, -1, format!("source sent {:?}, f was called with {:?}", sent, seen));
    }
    let t = times(g, pe);
    if t.greet_ev >= 0 {
        // one Pull from inside the greeting and one from inside every datum - except a datum during
        // whose callback the source ended (the callback may feed back into the source; the end then
        // arrives inside the delivery but not inside for_each's own Pull for it): nothing may be
        // sent to the source any more
        let pulls_up = evs(g, pe, Dir::Up, &[Kind::Pull]);
        let mut frames: Vec<usize> = vec![t.greet_ev as usize];
        frames.extend(evs(g, pe, Dir::Down, &[Kind::Data]));
        let mut want = 0usize;
        for d in frames.iter() {
            let mine: Vec<usize> = pulls_up.iter().copied().filter(|p| g.events[*p].parent == *d as i32).collect();
            let ended_in_callback = t.dterm_ev >= 0
                && t.dterm_in > g.events[*d].t_in
                && t.dterm_in < g.events[*d].t_out
                && !mine.iter().any(|p| within(g, t.dterm_ev as usize, *p));
            if !ended_in_callback {
                want += 1;
            }
        }
        let pulls = pulls_up.len();
        if pulls != want {
            report(g, st, &["C04"], "for_each-pull-count", "for_each", pe, -1, format!("for_each sent {} Pulls; a greeting and {} data, of which {} were delivered while the source was still running when the callback returned", pulls, frames.len() - 1, want.saturating_sub(1)));
        }
        if t.uterm_ev >= 0 {
            report(g, st, &["C04"], "for_each-disposed-its-source", "for_each", pe, t.uterm_ev, String::new());
        }
    }
}

/// V6 and the sibling clause of C05, evaluated when the run is over.
fn orphans(b: &Built, g: &mut Inner, st: &mut State, w: &Which) {
    if matches!(b.topo, Topo::ForEach) {
        if w.c04 {
            for_each_end(b, g, st);
        }
        return;
    }
    let now = g.clock + 1;
    for e in puppet_edges(g) {
        let t = times(g, e);
        if !t.live_at(now) {
            continue;
        }
        let owner = g.edges[e].owner;
        if output_over_for(g, b, owner, now) {
            let culprit = g.edges[e].below.clone();
            let label = g.edges[e].label.clone();
            // was the output ended by an upstream error? then this is also C05's sibling clause
            let by_error = owner >= 0
                && edge_of_probe(g, owner as usize)
                    .map(|pe| {
                        let tt = times(g, pe);
                        tt.dterm_ev >= 0 && g.events[tt.dterm_ev as usize].kind == Kind::Error
                    })
                    .unwrap_or(false);
            if w.c04 {
                report(
                    g,
                    st,
                    &["C04"],
                    "upstream-orphaned",
                    &culprit,
                    e,
                    -1,
                    format!("{} is still live although the output is over", label),
                );
            }
            if w.c05 && by_error {
                report(
                    g,
                    st,
                    &["C05"],
                    "sibling-not-disposed-after-error",
                    &culprit,
                    e,
                    -1,
                    format!("{} is still live although the output failed", label),
                );
            }
        }
    }
}

// ---------------------------------------------------------------------------------------------
// C05: an upstream Error reaches the sink once, unchanged
// ---------------------------------------------------------------------------------------------

/// is event `i` nested inside the downward Error of another upstream edge?
fn nested_in_other_failure(g: &Inner, i: usize) -> bool {
    let e = g.events[i].edge;
    let mut p = g.events[i].parent;
    while p >= 0 {
        let x = &g.events[p as usize];
        if x.dir == Dir::Down && x.kind == Kind::Error && x.edge != e && matches!(g.edges[x.edge as usize].role, Role::Puppet(..)) {
            return true;
        }
        p = x.parent;
    }
    false
}

fn c05_step(b: &Built, g: &mut Inner, st: &mut State, from: usize, to: usize) {
    if matches!(b.topo, Topo::ForEach) {
        return;
    }
    for i in from..to {
        let x = g.events[i].clone();
        let e = x.edge as usize;
        if !(matches!(g.edges[e].role, Role::Puppet(..)) && x.dir == Dir::Down && x.kind == Kind::Error) {
            continue;
        }
        let owner = g.edges[e].owner;
        // a failure that arrives from inside the delivery of another upstream's failure (a member
        // told to stop makes a sibling fail): the output is already failing, it is no longer live,
        // and the sink is owed the first error only
        if nested_in_other_failure(g, i) {
            bump(st, "c05.error-during-another-failure");
            continue;
        }
        let targets: Vec<EdgeId> = if matches!(b.topo, Topo::Share(_)) {
            probe_edges(g)
                .into_iter()
                .filter(|pe| times(g, *pe).live_at(x.t_in) && share_upstream_of(g, *pe) == Some(e))
                .collect()
        } else if owner >= 0 {
            edge_of_probe(g, owner as usize).into_iter().filter(|pe| times(g, *pe).open_at(x.t_in)).collect()
        } else {
            vec![]
        };
        if targets.is_empty() {
            continue;
        }
        bump(st, "c05.error-while-live");
        // who swallowed it? the operator below the last edge that carried this error downward
        let carried: Vec<usize> = (i..to)
            .filter(|j| {
                let y = &g.events[*j];
                y.dir == Dir::Down && y.kind == Kind::Error && y.err == x.err
            })
            .collect();
        let last = *carried.last().unwrap_or(&i);
        let culprit = g.edges[g.events[last].edge as usize].below.clone();
        for pe in targets {
            let term: Vec<usize> =
                evs(g, pe, Dir::Down, &[Kind::Error, Kind::Terminate]).into_iter().filter(|j| *j >= i).collect();
            let same: Vec<usize> =
                term.iter().copied().filter(|j| g.events[*j].kind == Kind::Error && g.events[*j].err == x.err).collect();
            let label = g.edges[pe].label.clone();
            if same.len() == 1 && term.len() == 1 {
                continue;
            }
            if same.len() > 1 {
                report(
                    g,
                    st,
                    &["C05"],
                    "upstream-error-duplicated",
                    &b.op,
                    pe,
                    same[1] as i32,
                    format!("{} received err{} {} times", label, x.err, same.len()),
                );
            } else if same.is_empty() {
                // what did the sink get instead, during the delivery in which the error vanished?
                // (looked up on the output edge of the operator that swallowed it; in a composed
                // topology that is a tap, otherwise the sink itself)
                let inframe: Vec<usize> = (last + 1..to)
                    .filter(|j| {
                        let y = &g.events[*j];
                        y.dir == Dir::Down
                            && y.kind.is_terminal()
                            && within(g, *j, last)
                            && g.edges[y.edge as usize].above == culprit
                            && !matches!(g.edges[y.edge as usize].role, Role::Puppet(..))
                    })
                    .collect();
                if inframe.is_empty() {
                    report(
                        g,
                        st,
                        &["C05"],
                        "upstream-error-not-delivered",
                        &culprit,
                        pe,
                        i as i32,
                        format!("err{} emitted while {} was live; {} received no Error", x.err, label, label),
                    );
                } else {
                    let y = &g.events[inframe[0]];
                    let kind = if y.kind == Kind::Terminate {
                        "upstream-error-became-completion"
                    } else {
                        "upstream-error-changed"
                    };
                    let d = format!("err{} emitted; {} received {:?}[err{}] instead", x.err, label, y.kind, y.err);
                    report(g, st, &["C05"], kind, &culprit, pe, inframe[0] as i32, d);
                }
            } else {
                // the right error plus another terminal: C02's business, but also "exactly one"
                report(
                    g,
                    st,
                    &["C05"],
                    "upstream-error-plus-second-terminal",
                    &b.op,
                    pe,
                    term[1] as i32,
                    format!("{} received a second terminal besides err{}", label, x.err),
                );
            }
        }
    }
}

// ---------------------------------------------------------------------------------------------
// C07: unary operators are incremental list functions under push
// ---------------------------------------------------------------------------------------------

fn c07_step(b: &Built, g: &mut Inner, st: &mut State, u: UnOp) {
    if b.puppets[0].mode() != Mode::Listen {
        return;
    }
    // the user closure (map's f, filter's predicate, scan's reducer) runs exactly once per input:
    // a second evaluation is invisible for a pure closure and wrong for any other
    if matches!(u, UnOp::Map | UnOp::Filter { .. } | UnOp::Scan { .. }) {
        let inputs: usize = puppet_edges(g).into_iter().map(|e| evs(g, e, Dir::Down, &[Kind::Data]).len()).sum();
        let calls = b.closure_calls.load(std::sync::atomic::Ordering::SeqCst);
        bump(st, "c07.closure-calls");
        if calls != inputs {
            let op = b.op.clone();
            report(
                g,
                st,
                &["C07"],
                "closure-not-called-once-per-input",
                &op,
                0,
                -1,
                format!("upstream delivered {} data, the user closure ran {} times", inputs, calls),
            );
        }
    }
    // one comparison per subscription of the output: sink i against the upstream subscription
    // that was made for it
    for pi in 0..b.probes.len() {
        let se = match edge_of_probe(g, pi) {
            Some(e) => e,
            None => continue,
        };
        let pe = match puppet_edges(g).into_iter().find(|e| g.edges[*e].owner == pi as i32) {
            Some(e) => e,
            None => continue,
        };
        c07_one(g, st, &b.op, u, pe, se);
    }
}

fn c07_one(g: &mut Inner, st: &mut State, op: &str, u: UnOp, pe: EdgeId, se: EdgeId) {
    let xs_ev = evs(g, pe, Dir::Down, &[Kind::Data]);
    let xs: Vec<i64> = xs_ev.iter().map(|i| g.events[*i].val.a[0]).collect();
    let ys_ev = evs(g, se, Dir::Down, &[Kind::Data]);
    let ys: Vec<i64> = ys_ev.iter().map(|i| g.events[*i].val.a[0]).collect();
    let want = u.list_fn(&xs);
    let ts = times(g, se);
    let tp = times(g, pe);
    let disposed = ts.uterm_in != INF;
    let op = op.to_string();
    bump(st, "c07.compare");
    let ok = if disposed { want.len() >= ys.len() && want[..ys.len()] == ys[..] } else { want == ys };
    if !ok {
        let d = format!("upstream sent {:?}; {} should have delivered {:?}; sink received {:?}", xs, u.describe(), want, ys);
        report(g, st, &["C07"], "not-the-list-function", &op, se, -1, d);
        return;
    }
    // each output is delivered during the delivery of the input that caused it
    let mut produced = 0usize;
    for (i, xe) in xs_ev.iter().enumerate() {
        let upto = u.list_fn(&xs[..=i]).len();
        for j in produced..upto.min(ys_ev.len()) {
            if !within(g, ys_ev[j], *xe) {
                let d = format!("output #{} was not delivered during the delivery of input #{}", j, i);
                report(g, st, &["C07"], "output-not-during-causing-input", &op, se, ys_ev[j] as i32, d);
            }
        }
        produced = upto;
    }
    if let UnOp::Take(0) = u {
        // take(0) is outside C07 (n >= 1); nothing to judge beyond the list function above
        return;
    }
    if let UnOp::Take(n) = u {
        if ys.len() >= n {
            // "disposes upstream immediately after the nth item": exactly one stop, inside the
            // delivery of the input that carried the nth item (also when the sink itself
            // disposed from inside that handler: then the relay of its disposal is that stop)
            let cause = xs_ev[n - 1];
            let stops = evs(g, pe, Dir::Up, &[Kind::Terminate, Kind::Error]).into_iter().filter(|j| within(g, *j, cause)).count();
            bump(st, "c07.take-upstream-stop");
            // (if the source itself ended from inside the delivery of the nth item - a consumer that
            // completes the source it listens to - there is nobody left to dispose: then zero)
            let ended_inside = tp.dterm_ev >= 0 && within(g, tp.dterm_ev as usize, cause);
            if stops != if ended_inside { 0 } else { 1 } {
                report(
                    g,
                    st,
                    &["C07"],
                    "take-did-not-dispose-upstream-exactly-once-at-nth",
                    &op,
                    pe,
                    cause as i32,
                    format!("take({}): upstream was told to stop {} times during the delivery of the nth item", n, stops),
                );
            }
        }
        if ys.len() >= n && !disposed {
            bump(st, "c07.take-complete");
            // the nth item: sink completed and upstream disposed immediately, i.e. within the
            // delivery of the input that carried it
            let cause = xs_ev[n - 1];
            // (or failed, if the source itself failed from inside that delivery)
            let failed_inside = tp.dterm_ev >= 0
                && g.events[tp.dterm_ev as usize].kind == Kind::Error
                && within(g, tp.dterm_ev as usize, cause);
            let sink_done = ts.dterm_ev >= 0
                && (g.events[ts.dterm_ev as usize].kind == Kind::Terminate || failed_inside)
                && within(g, ts.dterm_ev as usize, cause);
            let up_done = (tp.uterm_ev >= 0 && within(g, tp.uterm_ev as usize, cause))
                || (tp.dterm_ev >= 0 && within(g, tp.dterm_ev as usize, cause));
            if !sink_done {
                report(
                    g,
                    st,
                    &["C07"],
                    "take-did-not-complete-sink-at-nth",
                    &op,
                    se,
                    -1,
                    format!("take({}) delivered {} items but the sink was not completed during the nth delivery", n, ys.len()),
                );
            }
            if !up_done {
                report(
                    g,
                    st,
                    &["C07"],
                    "take-did-not-dispose-upstream-at-nth",
                    &op,
                    pe,
                    -1,
                    format!("take({}) delivered {} items but upstream was not disposed during the nth delivery", n, ys.len()),
                );
            }
        }
    }
    // completion exactly when upstream completes (take: unless it completed by count)
    if ts.dterm_ev >= 0 && g.events[ts.dterm_ev as usize].kind == Kind::Terminate {
        let by_count = matches!(u, UnOp::Take(n) if ys.len() >= n);
        if !by_count {
            let okc = tp.dterm_ev >= 0
                && g.events[tp.dterm_ev as usize].kind == Kind::Terminate
                && within(g, ts.dterm_ev as usize, tp.dterm_ev as usize);
            if !okc {
                report(
                    g,
                    st,
                    &["C07"],
                    "completed-but-upstream-did-not",
                    &op,
                    se,
                    ts.dterm_ev,
                    "sink was completed although upstream has not completed".into(),
                );
            }
        }
    }
    if tp.dterm_ev >= 0 && g.events[tp.dterm_ev as usize].kind == Kind::Terminate && ts.open_at(tp.dterm_in) {
        bump(st, "c07.upstream-complete");
        let okc = ts.dterm_ev >= 0 && within(g, ts.dterm_ev as usize, tp.dterm_ev as usize);
        if !okc {
            report(
                g,
                st,
                &["C07"],
                "upstream-completed-but-sink-not",
                &op,
                se,
                tp.dterm_ev,
                "upstream completed while the sink was live, the sink was not completed during that delivery".into(),
            );
        }
    }
}

// ---------------------------------------------------------------------------------------------
// helpers shared by the fan-in oracles
// ---------------------------------------------------------------------------------------------

struct Member {
    edge: EdgeId,
    t: Times,
}

/// the subscription of puppet `p` that belongs to output subscription `owner`
pub fn edge_of_puppet_owned(g: &Inner, p: usize, owner: usize) -> Option<EdgeId> {
    (0..g.edges.len()).find(|i| matches!(g.edges[*i].role, Role::Puppet(pp, _) if pp as usize == p) && g.edges[*i].owner == owner as i32)
}

fn members(g: &Inner, n: usize, owner: usize) -> Vec<Option<Member>> {
    (0..n).map(|p| edge_of_puppet_owned(g, p, owner).map(|e| Member { edge: e, t: times(g, e) })).collect()
}

/// members given as a list of puppet ids in which an id may occur more than once (the same source
/// value listed twice): the k-th occurrence of an id is that puppet's k-th subscription made for
/// this output subscription
fn members_listed(g: &Inner, ids: &[usize], owner: usize) -> Vec<Option<Member>> {
    let mut seen: std::collections::BTreeMap<usize, usize> = Default::default();
    ids.iter()
        .map(|p| {
            let nth = *seen.entry(*p).and_modify(|x| *x += 1).or_insert(0);
            (0..g.edges.len())
                .filter(|i| matches!(g.edges[*i].role, Role::Puppet(pp, _) if pp as usize == *p) && g.edges[*i].owner == owner as i32)
                .nth(nth)
                .map(|e| Member { edge: e, t: times(g, e) })
        })
        .collect()
}

/// data emitted by the given puppet edges while the sink `se` was open, in time order
fn emitted_while_open(g: &Inner, edges: &[EdgeId], ts: &Times) -> Vec<usize> {
    let mut v: Vec<usize> = vec![];
    for e in edges {
        for i in evs(g, *e, Dir::Down, &[Kind::Data]) {
            if ts.open_at(g.events[i].t_in) {
                v.push(i);
            }
        }
    }
    v.sort_by_key(|i| g.events[*i].t_in);
    v
}

/// Check "every sink Pull reaches every member in `want`" for the probe pulls in from..to.
#[allow(clippy::too_many_arguments)]
fn check_pull_fanout(
    g: &mut Inner,
    st: &mut State,
    prop: &'static str,
    op: &str,
    se: EdgeId,
    mem: &[Option<Member>],
    from: usize,
    to: usize,
) {
    let ts = times(g, se);
    for y in from..to {
        let ev = g.events[y].clone();
        if ev.edge as usize != se || ev.dir != Dir::Up || ev.kind != Kind::Pull {
            continue;
        }
        // only judge pulls during which the output stayed live (otherwise the broadcast may
        // legitimately stop half-way)
        let stayed_live = !ts.over_at(ev.t_out);
        for (mi, m) in mem.iter().enumerate() {
            let m = match m {
                Some(m) => m,
                None => continue,
            };
            let got: Vec<usize> = evs(g, m.edge, Dir::Up, &[Kind::Pull])
                .into_iter()
                .filter(|j| attributed_pull_on(g, *j, se) == Some(y))
                .collect();
            // a member that ends or is stopped while the Pull is being broadcast (nested pulls
            // from inside a sibling's reply can exhaust it) need not be reached any more
            let live = m.t.live_at(ev.t_in) && m.t.live_at(ev.t_out);
            if live && stayed_live {
                bump(st, "fanin.pull-reaches-member");
                if got.is_empty() {
                    report(
                        g,
                        st,
                        &[prop],
                        "pull-not-forwarded-to-live-member",
                        op,
                        m.edge,
                        y as i32,
                        format!("sink Pull (event #{}) did not reach member {} which was greeted and running", y, mi),
                    );
                }
            }
            // "...to every member that has greeted and not completed": none to a member that has
            for j in &got {
                let t = g.events[*j].t_in;
                if m.t.dterm_in < t {
                    report(
                        g,
                        st,
                        &[prop],
                        "pull-forwarded-to-completed-member",
                        op,
                        m.edge,
                        *j as i32,
                        format!("member {} had already ended when the sink's Pull (event #{}) was forwarded to it", mi, y),
                    );
                }
            }
            if got.len() > 1 {
                report(
                    g,
                    st,
                    &[prop],
                    "pull-forwarded-more-than-once",
                    op,
                    m.edge,
                    y as i32,
                    format!("one sink Pull reached member {} {} times", mi, got.len()),
                );
            }
        }
    }
}

/// "completes the sink exactly once, when the last member has completed"
fn check_fanin_completion(g: &mut Inner, st: &mut State, prop: &'static str, op: &str, se: EdgeId, mem: &[Option<Member>]) {
    let ts = times(g, se);
    let all_done = mem.iter().all(|m| match m {
        Some(m) => m.t.dterm_ev >= 0 && g.events[m.t.dterm_ev as usize].kind == Kind::Terminate,
        None => false,
    });
    let sink_completed = ts.dterm_ev >= 0 && g.events[ts.dterm_ev as usize].kind == Kind::Terminate;
    if all_done {
        let last = mem.iter().map(|m| m.as_ref().unwrap().t.dterm_ev as usize).max_by_key(|i| g.events[*i].t_in).unwrap();
        if ts.open_at(g.events[last].t_in) {
            bump(st, "fanin.completion");
            if !(sink_completed && within(g, ts.dterm_ev as usize, last)) {
                report(
                    g,
                    st,
                    &[prop],
                    "not-completed-when-last-member-completed",
                    op,
                    se,
                    last as i32,
                    "every member has completed but the sink was not completed during the last completion".into(),
                );
            }
        }
    } else if sink_completed {
        report(
            g,
            st,
            &[prop],
            "completed-before-all-members",
            op,
            se,
            ts.dterm_ev,
            "sink was completed although some member has not completed".into(),
        );
    }
}

fn check_data_sequence(
    g: &mut Inner,
    st: &mut State,
    prop: &'static str,
    op: &str,
    se: EdgeId,
    expected: &[(usize, Val)],
    what: &'static str,
) {
    let got = evs(g, se, Dir::Down, &[Kind::Data]);
    bump(st, "data-sequence");
    let gv: Vec<Val> = got.iter().map(|i| g.events[*i].val).collect();
    let wv: Vec<Val> = expected.iter().map(|x| x.1).collect();
    if gv != wv {
        // tolerate a shorter received list only if the sink disposed meanwhile (handled by callers
        // through `expected`, which only lists emissions made while the sink was open)
        let d = format!(
            "expected {:?}, sink received {:?}",
            wv.iter().map(|v| v.show()).collect::<Vec<_>>(),
            gv.iter().map(|v| v.show()).collect::<Vec<_>>()
        );
        report(g, st, &[prop], what, op, se, -1, d);
        return;
    }
    for (k, (cause, _)) in expected.iter().enumerate() {
        if !within(g, got[k], *cause) {
            report(
                g,
                st,
                &[prop],
                "not-delivered-during-the-emission",
                op,
                se,
                got[k] as i32,
                format!("datum #{} reached the sink outside the member's delivery that carried it", k),
            );
        }
    }
}

// ---------------------------------------------------------------------------------------------
// composed topologies: every operator instance is judged by the oracle of its own property, with
// the taps (or leaf puppets) on its inputs as its members and the tap (or probe) on its output as
// its sink. Sound because a tap is a conformant peer exactly as long as the operators behind it
// are: the first violation of an execution is the one that is reported.
// ---------------------------------------------------------------------------------------------

fn edge_of_link(g: &Inner, l: Link, owner: usize) -> Option<EdgeId> {
    match l {
        Link::Puppet(id) => edge_of_puppet_owned(g, id, owner),
        Link::Tap(t) => (0..g.edges.len())
            .find(|i| matches!(g.edges[*i].role, Role::Tap(tt, _) if tt as usize == t) && g.edges[*i].owner == owner as i32),
        Link::Probe => edge_of_probe(g, owner),
        Link::Unknown => None,
    }
}

fn tree_step(b: &Built, g: &mut Inner, st: &mut State, w: &Which, from: usize, to: usize) {
    let failing = b.puppet_specs.iter().any(|s| s.fin == Fin::Err);
    for owner in 0..b.probes.len() {
        for inst in b.info.ops.iter() {
            let se = match edge_of_link(g, inst.output, owner) {
                Some(e) => e,
                None => continue,
            };
            let mem: Vec<Option<Member>> = inst
                .inputs
                .iter()
                .map(|l| edge_of_link(g, *l, owner).map(|e| Member { edge: e, t: times(g, e) }))
                .collect();
            match &inst.kind {
                OpKind::Un(u) if w.c07 => {
                    if let Some(Some(m)) = mem.first() {
                        bump(st, "tree.unary-instance-steps");
                        c07_one(g, st, u.name(), *u, m.edge, se);
                    }
                },
                OpKind::Merge if w.c08 && !mem.is_empty() => {
                    bump(st, "tree.merge-instance-steps");
                    c08_core(g, st, "merge", se, mem, from, to)
                },
                OpKind::Concat if w.c09 && !mem.is_empty() => {
                    bump(st, "tree.concat-instance-steps");
                    c09_core(g, st, "concat", se, mem, from, to)
                },
                OpKind::Combine2 if w.c10 => {
                    bump(st, "tree.combine-instance-steps");
                    c10_core(g, st, "combine", se, mem, failing, from, to)
                },
                OpKind::Flatten(outer) if w.c11 => {
                    if let Some(oe) = edge_of_puppet_owned(g, *outer, owner) {
                        bump(st, "tree.flatten-instance-steps");
                        c11_core(g, st, "flatten", se, oe, mem, 0, from, to);
                    }
                },
                _ => {},
            }
        }
    }
}

// ---------------------------------------------------------------------------------------------
// C08 merge
// ---------------------------------------------------------------------------------------------

fn c08_step(b: &Built, g: &mut Inner, st: &mut State, n: usize, from: usize, to: usize, owner: usize) {
    let se = match edge_of_probe(g, owner) {
        Some(e) => e,
        None => return,
    };
    let mem = members(g, n, owner);
    c08_core(g, st, &b.op, se, mem, from, to);
}

fn c08_core(g: &mut Inner, st: &mut State, op: &str, se: EdgeId, mem: Vec<Option<Member>>, from: usize, to: usize) {
    let op = op.to_string();
    let ts = times(g, se);
    // (a) greeted when the first member greets
    let first = mem
        .iter()
        .flatten()
        .filter(|m| m.t.greet_ev >= 0)
        .min_by_key(|m| m.t.greet_in)
        .map(|m| m.t.greet_ev as usize);
    if let Some(f) = first {
        bump(st, "c08.greeting");
        if !(ts.greet_ev >= 0 && within(g, ts.greet_ev as usize, f)) {
            report(
                g,
                st,
                &["C08"],
                "sink-not-greeted-with-first-member",
                &op,
                se,
                f as i32,
                "the first member greeted but the sink was not greeted during that greeting".into(),
            );
        }
    } else if ts.greet_ev >= 0 {
        report(g, st, &["C08"], "sink-greeted-before-any-member", &op, se, ts.greet_ev, String::new());
    }
    // (b) every datum exactly once, in arrival order
    let edges: Vec<EdgeId> = mem.iter().flatten().map(|m| m.edge).collect();
    let all: Vec<usize> = emitted_while_open(g, &edges, &ts);
    // once a member has failed the output is failing: what the other members still emit before
    // they are told to stop (from inside the stop of a sibling) is not owed to the sink any more;
    // it may be delivered (all of it) or dropped (all of it)
    let fail_t = mem
        .iter()
        .flatten()
        .filter(|m| m.t.dterm_ev >= 0 && g.events[m.t.dterm_ev as usize].kind == Kind::Error)
        .map(|m| m.t.dterm_in)
        .min()
        .unwrap_or(INF);
    let owed: Vec<usize> = all.iter().copied().filter(|i| g.events[*i].t_in < fail_t).collect();
    let n_got = evs(g, se, Dir::Down, &[Kind::Data]).len();
    let use_all = owed.len() != all.len() && n_got == all.len();
    if owed.len() != all.len() {
        bump(st, "c08.data-while-failing");
    }
    let exp: Vec<(usize, Val)> =
        (if use_all { all } else { owed }).into_iter().map(|i| (i, g.events[i].val)).collect();
    check_data_sequence(g, st, "C08", &op, se, &exp, "not-the-arrival-order-union");
    // (c) pulls
    check_pull_fanout(g, st, "C08", &op, se, &mem, from, to);
    // (d) completion
    if mem.iter().all(|m| m.is_some()) {
        check_fanin_completion(g, st, "C08", &op, se, &mem);
    } else {
        let sink_completed = ts.dterm_ev >= 0 && g.events[ts.dterm_ev as usize].kind == Kind::Terminate;
        if sink_completed {
            report(g, st, &["C08"], "completed-before-all-members", &op, se, ts.dterm_ev, String::new());
        }
    }
    // (e) a member that greets after the output is over is disposed at once
    for m in mem.iter().flatten() {
        if m.t.greet_ev >= 0 && (m.t.greet_ev as usize) >= from && ts.over_at(m.t.greet_in) {
            bump(st, "c08.late-greeter-after-over");
            let stopped_inside = m.t.uterm_ev >= 0 && within(g, m.t.uterm_ev as usize, m.t.greet_ev as usize);
            if !stopped_inside {
                let label = g.edges[m.edge].label.clone();
                report(
                    g,
                    st,
                    &["C08"],
                    "late-greeter-not-disposed",
                    &op,
                    m.edge,
                    m.t.greet_ev,
                    format!("{} greeted after the output was over and was not told to stop during its greeting", label),
                );
            }
        }
    }
}

// ---------------------------------------------------------------------------------------------
// C09 concat
// ---------------------------------------------------------------------------------------------

fn c09_step(b: &Built, g: &mut Inner, st: &mut State, n: usize, from: usize, to: usize, owner: usize) {
    let se = match edge_of_probe(g, owner) {
        Some(e) => e,
        None => return,
    };
    let mem = members(g, n, owner);
    c09_core(g, st, &b.op, se, mem, from, to);
}

fn c09_core(g: &mut Inner, st: &mut State, op: &str, se: EdgeId, mem: Vec<Option<Member>>, _from: usize, _to: usize) {
    let op = op.to_string();
    let n = mem.len();
    let ts = times(g, se);
    // (a) member k+1 is subscribed only after member k has completed
    for k in 1..n {
        if let Some(m) = &mem[k] {
            bump(st, "c09.boundary");
            let prev_done = match &mem[k - 1] {
                Some(p) => {
                    p.t.dterm_ev >= 0
                        && g.events[p.t.dterm_ev as usize].kind == Kind::Terminate
                        && p.t.dterm_in < m.t.sub_in
                },
                None => false,
            };
            if !prev_done {
                report(
                    g,
                    st,
                    &["C09"],
                    "member-subscribed-before-predecessor-completed",
                    &op,
                    m.edge,
                    -1,
                    format!("member {} was subscribed although member {} has not completed", k, k - 1),
                );
            }
            // (c) an outstanding Pull is re-issued to the next member
            if m.t.greet_ev >= 0 {
                let pulls_before =
                    evs(g, se, Dir::Up, &[Kind::Pull]).into_iter().filter(|i| g.events[*i].t_in < m.t.greet_in).count();
                let data_before =
                    evs(g, se, Dir::Down, &[Kind::Data]).into_iter().filter(|i| g.events[*i].t_in < m.t.greet_in).count();
                if pulls_before > data_before && ts.open_at(m.t.greet_in) {
                    bump(st, "c09.outstanding-pull");
                    // "re-issued so that a puller never stalls at a boundary": without further
                    // prompting, i.e. before the env step in which the member greeted is over (the
                    // statement does not say that it has to happen inside the greeting call itself)
                    let gstep = g.events[m.t.greet_ev as usize].step;
                    let reissued = evs(g, m.edge, Dir::Up, &[Kind::Pull])
                        .into_iter()
                        .any(|i| g.events[i].t_in > m.t.greet_in && g.events[i].step == gstep);
                    // a member that ends by itself in that very step before it was pulled needs no
                    // Pull any more: the outstanding Pull then goes to ITS successor (judged there)
                    let ended_unpulled = m.t.dterm_ev >= 0 && g.events[m.t.dterm_ev as usize].step == gstep;
                    if !reissued && !ended_unpulled {
                        report(
                            g,
                            st,
                            &["C09"],
                            "outstanding-pull-not-reissued",
                            &op,
                            m.edge,
                            m.t.greet_ev,
                            format!(
                                "sink had {} pulls and {} data when member {} greeted; no Pull was sent to it",
                                pulls_before, data_before, k
                            ),
                        );
                    }
                }
            }
        }
    }
    // (b) all of member k's data before any of member k+1's: arrival order with member order
    let edges: Vec<EdgeId> = mem.iter().flatten().map(|m| m.edge).collect();
    let exp: Vec<(usize, Val)> =
        emitted_while_open(g, &edges, &ts).into_iter().map(|i| (i, g.events[i].val)).collect();
    check_data_sequence(g, st, "C09", &op, se, &exp, "not-the-concatenation");
    let mut last_member = 0i64;
    for (ei, _) in &exp {
        // which member emitted it
        let e = g.events[*ei].edge as usize;
        let mi = mem.iter().position(|m| m.as_ref().map(|m| m.edge == e).unwrap_or(false)).unwrap_or(0) as i64;
        if mi < last_member {
            report(g, st, &["C09"], "members-interleaved", &op, se, -1, "data of an earlier member after a later one".into());
        }
        last_member = mi;
    }
    // (d) completes after the last member
    if mem.iter().all(|m| m.is_some()) {
        check_fanin_completion(g, st, "C09", &op, se, &mem);
    } else {
        let sink_completed = ts.dterm_ev >= 0 && g.events[ts.dterm_ev as usize].kind == Kind::Terminate;
        if sink_completed {
            report(g, st, &["C09"], "completed-before-all-members", &op, se, ts.dterm_ev, String::new());
        }
    }
}

// ---------------------------------------------------------------------------------------------
// C10 combine
// ---------------------------------------------------------------------------------------------

fn c10_step(b: &Built, g: &mut Inner, st: &mut State, n: usize, from: usize, to: usize, owner: usize) {
    let se = match edge_of_probe(g, owner) {
        Some(e) => e,
        None => return,
    };
    let mem = members(g, n, owner);
    let failing = b.puppet_specs.iter().any(|s| s.fin == Fin::Err);
    c10_core(g, st, &b.op, se, mem, failing, from, to);
}

#[allow(clippy::too_many_arguments)]
fn c10_core(g: &mut Inner, st: &mut State, op: &str, se: EdgeId, mem: Vec<Option<Member>>, failing: bool, from: usize, to: usize) {
    let op = op.to_string();
    let n = mem.len();
    let ts = times(g, se);
    // member errors are C05's business (finding D: an Error is counted as a completion); with a
    // failing member only the weakest reading of "completes after all members have ended" is
    // judged: once every member has ended, one way or the other, the sink has heard *a* terminal
    if failing {
        let all_ended = mem.iter().all(|m| m.as_ref().map(|m| m.t.dterm_ev >= 0).unwrap_or(false));
        if all_ended {
            let last = mem.iter().map(|m| m.as_ref().unwrap().t.dterm_ev as usize).max_by_key(|i| g.events[*i].t_in).unwrap();
            if ts.open_at(g.events[last].t_in) && ts.greet_in < g.events[last].t_in {
                bump(st, "c10.all-ended-with-a-failure");
                if !(ts.dterm_ev >= 0 && within(g, ts.dterm_ev as usize, last)) {
                    report(
                        g,
                        st,
                        &["C10"],
                        "no-terminal-although-every-member-ended",
                        &op,
                        se,
                        last as i32,
                        "every member has ended (at least one with an Error); the sink received neither Terminate nor Error".into(),
                    );
                }
            }
        }
        return;
    }
    // (a) greeted once all members have greeted
    if mem.iter().all(|m| m.as_ref().map(|m| m.t.greet_ev >= 0).unwrap_or(false)) {
        bump(st, "c10.greeting");
        let last = mem.iter().flatten().max_by_key(|m| m.t.greet_in).unwrap().t.greet_ev as usize;
        if !(ts.greet_ev >= 0 && within(g, ts.greet_ev as usize, last)) {
            report(
                g,
                st,
                &["C10"],
                "sink-not-greeted-when-all-members-greeted",
                &op,
                se,
                last as i32,
                "all members have greeted but the sink was not greeted during the last greeting".into(),
            );
        }
    } else if ts.greet_ev >= 0 {
        report(g, st, &["C10"], "sink-greeted-before-all-members", &op, se, ts.greet_ev, String::new());
    }
    // (b) tuples
    let edges: Vec<EdgeId> = mem.iter().flatten().map(|m| m.edge).collect();
    let mut all: Vec<usize> = vec![];
    for e in &edges {
        all.extend(evs(g, *e, Dir::Down, &[Kind::Data]));
    }
    all.sort_by_key(|i| g.events[*i].t_in);
    let mut latest: Vec<Option<i64>> = vec![None; n];
    let mut exp: Vec<(usize, Val)> = vec![];
    for i in all {
        let ev = &g.events[i];
        let mi = match mem.iter().position(|m| m.as_ref().map(|m| m.edge == ev.edge as usize).unwrap_or(false)) {
            Some(p) => p,
            None => continue,
        };
        latest[mi] = Some(ev.val.a[0]);
        if latest.iter().all(|x| x.is_some()) && ts.open_at(ev.t_in) {
            let mut v = Val { n: n as u8, a: [0; 3] };
            for (k, x) in latest.iter().enumerate() {
                v.a[k] = x.unwrap();
            }
            exp.push((i, v));
        }
    }
    check_data_sequence(g, st, "C10", &op, se, &exp, "not-the-latest-value-tuples");
    // (c) completion once, after all members ended
    if mem.iter().all(|m| m.is_some()) {
        check_fanin_completion(g, st, "C10", &op, se, &mem);
    }
    // (d) every sink Pull reaches every member still running
    check_pull_fanout(g, st, "C10", &op, se, &mem, from, to);
}

// ---------------------------------------------------------------------------------------------
// C11 flatten
// ---------------------------------------------------------------------------------------------

fn c11_step(b: &Built, g: &mut Inner, st: &mut State, from: usize, to: usize, owner: usize) {
    let se = match edge_of_probe(g, owner) {
        Some(e) => e,
        None => return,
    };
    let oe = match edge_of_puppet_owned(g, 0, owner) {
        Some(e) => e,
        None => return,
    };
    let n_inner = b.info.inners.len();
    // indexed by emission ordinal of the outer. Normally emission k carries inner puppet k+1; when
    // the outer emits the same source value every time, emission k belongs to the k-th subscription
    // of puppet 1 made for this output subscription
    let inner: Vec<Option<Member>> = if b.info.repeat_inner {
        let subs: Vec<EdgeId> = (0..g.edges.len())
            .filter(|i| matches!(g.edges[*i].role, Role::Puppet(1, _)) && g.edges[*i].owner == owner as i32)
            .collect();
        (0..n_inner).map(|k| subs.get(k).map(|e| Member { edge: *e, t: times(g, *e) })).collect()
    } else {
        (1..=n_inner).map(|p| edge_of_puppet_owned(g, p, owner).map(|e| Member { edge: e, t: times(g, e) })).collect()
    };
    c11_core(g, st, &b.op, se, oe, inner, 1, from, to);
}

/// `val_base`: the value the outer puppet attaches to its first item (emission k carries val_base + k)
#[allow(clippy::too_many_arguments)]
fn c11_core(
    g: &mut Inner,
    st: &mut State,
    op: &str,
    se: EdgeId,
    oe: EdgeId,
    inner: Vec<Option<Member>>,
    val_base: i64,
    from: usize,
    to: usize,
) {
    let op = op.to_string();
    let ts = times(g, se);
    let to_ = times(g, oe);
    let active_at = |g: &Inner, t: u32| -> Option<usize> {
        let _ = g;
        inner.iter().position(|m| m.as_ref().map(|m| m.t.live_at(t)).unwrap_or(false))
    };
    // (a)+(b): every inner the outer emits is subscribed once and pulled once on greeting; the
    // previous inner is disposed first
    for x in evs(g, oe, Dir::Down, &[Kind::Data]) {
        if x < from {
            continue;
        }
        let ev = g.events[x].clone();
        if !ts.open_at(ev.t_in) {
            continue;
        }
        let j = (ev.val.a[0] - val_base) as usize;
        if j >= inner.len() {
            continue;
        }
        bump(st, "c11.inner-emitted");
        let prev = active_at(g, ev.t_in);
        match &inner[j] {
            Some(m) if within(g, g.edges[m.edge].events[0] as usize, x) => {
                if m.t.greet_ev >= 0 {
                    let direct: Vec<usize> = evs(g, m.edge, Dir::Up, &[Kind::Pull])
                        .into_iter()
                        .filter(|i| g.events[*i].parent == m.t.greet_ev)
                        .collect();
                    if direct.len() != 1 {
                        report(
                            g,
                            st,
                            &["C11"],
                            "inner-not-pulled-once-on-greeting",
                            &op,
                            m.edge,
                            m.t.greet_ev,
                            format!("inner {} received {} Pulls directly from its greeting", j + 1, direct.len()),
                        );
                    }
                }
                if let Some(pj) = prev {
                    bump(st, "c11.switch");
                    let pm = inner[pj].as_ref().unwrap();
                    let ok = pm.t.uterm_ev >= 0
                        && within(g, pm.t.uterm_ev as usize, x)
                        && g.events[pm.t.uterm_ev as usize].t_in < m.t.sub_in;
                    if !ok {
                        report(
                            g,
                            st,
                            &["C11"],
                            "previous-inner-not-disposed-at-switch",
                            &op,
                            pm.edge,
                            x as i32,
                            format!("inner {} was active when inner {} arrived and was not disposed first", pj + 1, j + 1),
                        );
                    }
                }
            },
            _ => {
                report(
                    g,
                    st,
                    &["C11"],
                    "inner-not-subscribed",
                    &op,
                    oe,
                    x as i32,
                    format!("outer emitted inner {} while the output was live; it was not subscribed during that delivery", j + 1),
                );
            },
        }
    }
    // (e) only the active inner's data reach the sink, in order
    let edges: Vec<EdgeId> = inner.iter().flatten().map(|m| m.edge).collect();
    let exp: Vec<(usize, Val)> =
        emitted_while_open(g, &edges, &ts).into_iter().map(|i| (i, g.events[i].val)).collect();
    check_data_sequence(g, st, "C11", &op, se, &exp, "not-the-active-inner-data");
    // (c) completion
    let outer_done = to_.dterm_ev >= 0 && g.events[to_.dterm_ev as usize].kind == Kind::Terminate;
    let sink_completed = ts.dterm_ev >= 0 && g.events[ts.dterm_ev as usize].kind == Kind::Terminate;
    if outer_done {
        let t_outer = to_.dterm_in;
        // candidates: the outer's completion (no inner active) or the completion of the inner that
        // was active when/after the outer completed
        let mut due: Option<usize> = None;
        if active_at(g, t_outer).is_none() {
            due = Some(to_.dterm_ev as usize);
        } else {
            let j = active_at(g, t_outer).unwrap();
            let m = inner[j].as_ref().unwrap();
            if m.t.dterm_ev >= 0 && g.events[m.t.dterm_ev as usize].kind == Kind::Terminate {
                due = Some(m.t.dterm_ev as usize);
            }
        }
        if let Some(d) = due {
            if ts.open_at(g.events[d].t_in) {
                bump(st, "c11.completion");
                if !(sink_completed && within(g, ts.dterm_ev as usize, d)) {
                    report(
                        g,
                        st,
                        &["C11"],
                        "not-completed-when-outer-and-inner-done",
                        &op,
                        se,
                        d as i32,
                        "outer and current inner are both done; the sink was not completed during the last completion".into(),
                    );
                }
            }
        } else if sink_completed {
            report(g, st, &["C11"], "completed-while-inner-active", &op, se, ts.dterm_ev, String::new());
        }
    } else if sink_completed {
        report(g, st, &["C11"], "completed-before-outer", &op, se, ts.dterm_ev, String::new());
    }
    // (d) pull routing
    for y in from..to {
        let ev = g.events[y].clone();
        if ev.edge as usize != se || ev.dir != Dir::Up || ev.kind != Kind::Pull {
            continue;
        }
        if ts.over_at(ev.t_out) {
            continue;
        }
        let act = active_at(g, ev.t_in);
        let direct = |g: &Inner, e: EdgeId| -> usize {
            evs(g, e, Dir::Up, &[Kind::Pull]).into_iter().filter(|i| g.events[*i].parent == y as i32).count()
        };
        bump(st, "c11.pull-routing");
        if let Some(j) = act {
            let m = inner[j].as_ref().unwrap();
            if direct(g, m.edge) != 1 {
                report(
                    g,
                    st,
                    &["C11"],
                    "pull-not-routed-to-active-inner",
                    &op,
                    m.edge,
                    y as i32,
                    format!("inner {} was active; the sink Pull reached it {} times", j + 1, direct(g, m.edge)),
                );
            }
            if direct(g, oe) != 0 {
                report(g, st, &["C11"], "pull-routed-to-outer-despite-active-inner", &op, oe, y as i32, String::new());
            }
        } else if to_.live_at(ev.t_in) && direct(g, oe) != 1 {
            report(
                g,
                st,
                &["C11"],
                "pull-not-routed-to-outer",
                &op,
                oe,
                y as i32,
                format!("no inner was active; the sink Pull reached the outer {} times", direct(g, oe)),
            );
        }
    }
}

// ---------------------------------------------------------------------------------------------
// C12 share
// ---------------------------------------------------------------------------------------------

fn c12_step(b: &Built, g: &mut Inner, st: &mut State, from: usize, to: usize) {
    let op = b.op.clone();
    let pes = probe_edges(g);
    let ptimes: Vec<(EdgeId, Times)> = pes.iter().map(|e| (*e, times(g, *e))).collect();
    let ues: Vec<(EdgeId, Times)> = puppet_edges(g).into_iter().map(|e| (e, times(g, e))).collect();
    // (a) at most one upstream subscription alive
    for w in ues.windows(2) {
        let (e0, t0) = &w[0];
        let (e1, t1) = &w[1];
        bump(st, "c12.resubscription");
        if !(t0.dterm_in < t1.sub_in || t0.uterm_in < t1.sub_in) {
            let _ = e0;
            report(
                g,
                st,
                &["C12"],
                "two-upstream-subscriptions-alive",
                &op,
                *e1,
                -1,
                "a second upstream subscription was started while the first was alive".into(),
            );
        }
    }
    let attached_at = |t: u32| -> Vec<EdgeId> { ptimes.iter().filter(|(_, pt)| pt.live_at(t)).map(|x| x.0).collect() };
    let sub_open_at = |t: u32| -> Vec<EdgeId> { ptimes.iter().filter(|(_, pt)| pt.open_at(t)).map(|x| x.0).collect() };
    for i in from..to {
        let ev = g.events[i].clone();
        let e = ev.edge as usize;
        let role = g.edges[e].role;
        match (role, ev.dir, ev.kind) {
            // (b) a subscription is started exactly when a sink attaches while none is attached
            (Role::Probe(_), Dir::Up, Kind::Handshake) => {
                bump(st, "c12.attach");
                let others: Vec<EdgeId> = sub_open_at(ev.t_in).into_iter().filter(|x| *x != e).collect();
                // upstream subscriptions started by this very attach (not by an attach nested in it)
                let started = ues
                    .iter()
                    .filter(|(ue, _)| {
                        let s = g.edges[*ue].events[0] as usize;
                        ancestor(g, s, |a| {
                            let ea = &g.events[a];
                            matches!(g.edges[ea.edge as usize].role, Role::Probe(_))
                                && ea.dir == Dir::Up
                                && ea.kind == Kind::Handshake
                        }) == Some(i)
                    })
                    .count();
                // "A sink attaching after the end (or after everyone left) starts a fresh upstream
                // subscription": fresh iff nobody else is attached or the upstream subscription is over
                let upstream_live = ues.iter().any(|(_, ut)| ut.sub_in < ev.t_in && !ut.over_at(ev.t_in));
                let need_fresh = others.is_empty() || !upstream_live;
                if need_fresh && started != 1 {
                    report(
                        g,
                        st,
                        &["C12"],
                        "no-fresh-subscription-for-first-sink",
                        &op,
                        e,
                        i as i32,
                        format!(
                            "a sink attached while {}; {} upstream subscriptions were started",
                            if others.is_empty() { "none was attached" } else { "the upstream subscription was already over" },
                            started
                        ),
                    );
                }
                if !need_fresh && started != 0 {
                    report(
                        g,
                        st,
                        &["C12"],
                        "extra-upstream-subscription",
                        &op,
                        e,
                        i as i32,
                        "a sink attached while others were attached and a new upstream subscription was started".into(),
                    );
                }
                // the attaching sink is greeted during the attach call (upstream greets synchronously)
                let greeted = evs(g, e, Dir::Down, &[Kind::Handshake]).into_iter().any(|j| within(g, j, i));
                let up_greets_sync = b.puppets[0].late() == false;
                if up_greets_sync && !greeted {
                    report(g, st, &["C12"], "attaching-sink-not-greeted", &op, e, i as i32, String::new());
                }
            },
            // (c) every attached sink receives every datum and the termination
            (Role::Puppet(..), Dir::Down, Kind::Data | Kind::Terminate | Kind::Error) => {
                for pe in attached_at(ev.t_in) {
                    // only the sinks attached to *this* upstream subscription are owed its messages
                    if share_upstream_of(g, pe) != Some(e) {
                        continue;
                    }
                    bump(st, "c12.fanout");
                    let got: Vec<usize> = evs(g, pe, Dir::Down, &[ev.kind])
                        .into_iter()
                        .filter(|j| within(g, *j, i) && g.events[*j].val == ev.val && g.events[*j].err == ev.err)
                        .collect();
                    // a sink that detaches during this very fan-out (from inside its own handler of
                    // an earlier message of the same emission) is not owed the message
                    let pt = times(g, pe);
                    let left_meanwhile = pt.uterm_in > ev.t_in && pt.uterm_in < ev.t_out;
                    if got.len() != 1 && !(got.is_empty() && left_meanwhile) {
                        let label = g.edges[pe].label.clone();
                        report(
                            g,
                            st,
                            &["C12"],
                            "attached-sink-missed-or-duplicated-message",
                            &op,
                            pe,
                            i as i32,
                            format!("{} was attached; it received the {:?} {} times", label, ev.kind, got.len()),
                        );
                    }
                }
            },
            // (d') seen from the upstream: it is never told to stop while a sink that is attached to
            // that very subscription is still there (whoever's detach triggered it)
            (Role::Puppet(..), Dir::Up, Kind::Terminate | Kind::Error) => {
                let left: Vec<EdgeId> =
                    attached_at(ev.t_in).into_iter().filter(|x| share_upstream_of(g, *x) == Some(e)).collect();
                bump(st, "c12.upstream-stop");
                if !left.is_empty() && times(g, e).live_at(ev.t_in) {
                    let label = g.edges[left[0]].label.clone();
                    report(
                        g,
                        st,
                        &["C12"],
                        "upstream-disposed-while-sinks-attached",
                        &op,
                        e,
                        i as i32,
                        format!("{} (and {} more) is still attached to this upstream subscription", label, left.len() - 1),
                    );
                }
            },
            // (d) upstream is disposed exactly when the last attached sink detaches
            (Role::Probe(_), Dir::Up, Kind::Terminate | Kind::Error) => {
                let mine = share_upstream_of(g, e);
                let rest: Vec<EdgeId> = attached_at(ev.t_in)
                    .into_iter()
                    .filter(|x| *x != e && share_upstream_of(g, *x) == mine)
                    .collect();
                let live_up: Vec<&(EdgeId, Times)> =
                    ues.iter().filter(|(ue, ut)| ut.live_at(ev.t_in) && Some(*ue) == mine).collect();
                for (ue, _) in live_up {
                    bump(st, "c12.detach");
                    let stopped: usize = evs(g, *ue, Dir::Up, &[Kind::Terminate, Kind::Error])
                        .into_iter()
                        .filter(|j| within(g, *j, i))
                        .count();
                    if rest.is_empty() && stopped != 1 {
                        report(
                            g,
                            st,
                            &["C12"],
                            "upstream-not-disposed-when-last-sink-left",
                            &op,
                            *ue,
                            i as i32,
                            format!("the last sink detached; upstream was told to stop {} times during that call", stopped),
                        );
                    }
                    if !rest.is_empty() && stopped != 0 {
                        report(
                            g,
                            st,
                            &["C12"],
                            "upstream-disposed-while-sinks-attached",
                            &op,
                            *ue,
                            i as i32,
                            format!("{} sinks were still attached", rest.len()),
                        );
                    }
                }
            },
            _ => {},
        }
    }
}

// ---------------------------------------------------------------------------------------------
// C14 demand conservation (credit environment)
// ---------------------------------------------------------------------------------------------

fn c14_step(b: &Built, g: &mut Inner, st: &mut State, at_end: bool) {
    for o in 0..b.probes.len() {
        c14_one(b, g, st, at_end, o);
    }
}

fn c14_one(b: &Built, g: &mut Inner, st: &mut State, at_end: bool, owner: usize) {
    let se = match edge_of_probe(g, owner) {
        Some(e) => e,
        None => return,
    };
    let op = b.op.clone();
    // running data <= pulls at every prefix
    let mut pulls = 0i64;
    let mut data = 0i64;
    for &i in &g.edges[se].events {
        let ev = &g.events[i as usize];
        match (ev.dir, ev.kind) {
            (Dir::Up, Kind::Pull) => pulls += 1,
            (Dir::Down, Kind::Data) => {
                data += 1;
                if data > pulls {
                    let d = format!("sink had sent {} Pulls when datum #{} arrived", pulls, data);
                    report(g, st, &["C14"], "more-data-than-pulls", &op, se, i as i32, d);
                    return;
                }
            },
            _ => {},
        }
    }
    bump(st, "c14.prefix");
    // quiescence: no puppet owes a deferred answer
    let owes = b.puppets.iter().any(|p| (0..p.n_subs()).any(|k| p.can_step(k)));
    let ts = times(g, se);
    if !owes && ts.dterm_ev < 0 && ts.greet_ev >= 0 {
        bump(st, "c14.quiescent");
        if pulls != data {
            let d = format!(
                "at quiescence the sink has sent {} Pulls and received {} Data and no end{}",
                pulls,
                data,
                if at_end { " (end of run)" } else { "" }
            );
            report(g, st, &["C14"], "pull-unanswered-at-quiescence", &op, se, -1, d);
        }
    }
}

// ---------------------------------------------------------------------------------------------
// C15 from_iter: lazy, ordered, one item per Pull, never re-entrant
// ---------------------------------------------------------------------------------------------

fn c15_step(b: &Built, g: &mut Inner, st: &mut State, from: usize, to: usize) {
    let op = b.op.clone();
    for pe in probe_edges(g) {
        let owner = match g.edges[pe].role {
            Role::Probe(pi) => pi as i32,
            _ => continue,
        };
        let ie = match (0..g.edges.len()).find(|e| matches!(g.edges[*e].role, Role::Iter(..)) && g.edges[*e].owner == owner) {
            Some(e) => e,
            None => continue,
        };
        let ts = times(g, pe);
        let calls: Vec<usize> = g.edges[ie].events.iter().map(|i| *i as usize).collect();
        let pulls = evs(g, pe, Dir::Up, &[Kind::Pull]);
        let data = evs(g, pe, Dir::Down, &[Kind::Data]);
        bump(st, "c15.step");
        // items in order
        for (j, d) in data.iter().enumerate() {
            if g.events[*d].val.a[0] != j as i64 {
                let got: Vec<i64> = data.iter().map(|i| g.events[*i].val.a[0]).collect();
                report(g, st, &["C15"], "items-out-of-order", &op, pe, *d as i32, format!("sink received {:?}", got));
                break;
            }
        }
        // one item (or the end) per Pull. from_iter answers inside the Pull (or, for a Pull sent
        // from inside a delivery, right after that delivery returns), so once the env step is over
        // every Pull sent while the subscription was open has been answered. Judged for sinks that
        // never send two Pulls from inside one handler call: from_iter remembers one pending Pull,
        // not a count (as the JS reference does), and the statement does not say what a burst is owed.
        if ts.uterm_ev < 0 && ts.greet_ev >= 0 {
            let live: Vec<usize> = pulls.iter().copied().filter(|p| g.events[*p].t_in < ts.dterm_in).collect();
            let burst = live.iter().any(|p| {
                let par = g.events[*p].parent;
                par >= 0 && live.iter().filter(|q| g.events[**q].parent == par).count() > 1
            });
            if !burst {
                bump(st, "c15.answered");
                let answers = data.len() + if ts.dterm_ev >= 0 { 1 } else { 0 };
                if answers != live.len() {
                    let d = format!(
                        "the sink has sent {} Pulls while the subscription was open and received {} Data{}",
                        live.len(),
                        data.len(),
                        if ts.dterm_ev >= 0 { " and the end" } else { " and no end" }
                    );
                    report(g, st, &["C15"], "pull-not-answered-with-one-item", &op, pe, -1, d);
                }
            }
        }
        // no delivery begins while an earlier Data delivery to the same sink is in progress
        for i in from..to {
            let ev = &g.events[i];
            if ev.edge as usize == pe
                && ev.dir == Dir::Down
                && matches!(ev.kind, Kind::Data | Kind::Terminate)
                && ev.inflight > 0
            {
                let d = format!("{:?} delivery began while {} Data deliveries to the same sink were in progress", ev.kind, ev.inflight);
                report(g, st, &["C15"], "reentrant-delivery", &op, pe, i as i32, d);
            }
        }
        // the iterator is never advanced without a Pull
        for (n, c) in calls.iter().enumerate() {
            if *c < from {
                continue;
            }
            let t = g.events[*c].t_in;
            let pulls_before = pulls.iter().filter(|p| g.events[**p].t_in < t).count();
            bump(st, "c15.next-call");
            if n + 1 > pulls_before {
                let d = format!("next() call #{} happened when the sink had sent only {} Pulls", n + 1, pulls_before);
                report(g, st, &["C15"], "iterator-advanced-without-pull", &op, ie, *c as i32, d);
            }
            if t > ts.uterm_in {
                report(g, st, &["C15"], "iterator-advanced-after-disposal", &op, ie, *c as i32, String::new());
            }
        }
        // every item taken from the iterator is delivered (one per Pull): #Data == #items returned
        let items = calls.iter().filter(|c| g.events[**c].val.n > 0).count();
        if items != data.len() {
            let d = format!("iterator returned {} items, sink received {} Data", items, data.len());
            report(g, st, &["C15"], "item-lost-or-duplicated", &op, pe, -1, d);
        }
        // completion exactly once; nothing at all once disposed (also under late Pulls)
        let n_term = evs(g, pe, Dir::Down, &[Kind::Terminate, Kind::Error]).len();
        if n_term > 1 {
            report(g, st, &["C15"], "completed-more-than-once", &op, pe, -1, format!("sink received {} terminals", n_term));
        }
        if ts.uterm_in != INF {
            let late: Vec<usize> = g.edges[pe]
                .events
                .iter()
                .map(|i| *i as usize)
                .filter(|i| g.events[*i].dir == Dir::Down && g.events[*i].t_in > ts.uterm_in)
                .collect();
            if let Some(l) = late.first() {
                let d = format!("{:?} delivered after the sink had disposed", g.events[*l].kind);
                report(g, st, &["C15"], "delivery-after-disposal", &op, pe, *l as i32, d);
            }
        }
        // completion: exactly on the Pull that finds the iterator exhausted
        let exhausted: Vec<usize> = calls.iter().copied().filter(|c| g.events[*c].val.n == 0).collect();
        let term = ts.dterm_ev;
        if let Some(x) = exhausted.first() {
            bump(st, "c15.exhausted");
            if exhausted.len() > 1 {
                report(g, st, &["C15"], "iterator-advanced-after-exhaustion", &op, ie, exhausted[1] as i32, String::new());
            }
            let ok = term >= 0
                && g.events[term as usize].kind == Kind::Terminate
                && g.events[term as usize].t_in > g.events[*x].t_out
                && attributed_probe_pull(g, term as usize).is_some()
                && !evs(g, pe, Dir::Down, &[Kind::Data])
                    .iter()
                    .any(|d| g.events[*d].t_in > g.events[*x].t_out && g.events[*d].t_in < g.events[term as usize].t_in);
            if !ok && ts.uterm_in > g.events[*x].t_in {
                report(
                    g,
                    st,
                    &["C15"],
                    "completion-not-on-the-exhausting-pull",
                    &op,
                    pe,
                    *x as i32,
                    "the iterator reported exhaustion; the sink was not completed right then, inside a Pull".into(),
                );
            }
        } else if term >= 0 && g.events[term as usize].kind == Kind::Terminate {
            report(g, st, &["C15"], "completed-before-exhaustion", &op, pe, term, String::new());
        }
    }
}
