//! E6 (C20): the same seeded case list is executed by this binary (crate built without
//! `tracing`) and by a second build of the harness with the crate's `tracing` feature on, once
//! without and once with a TRACE-level subscriber installed. Every case prints a digest of every
//! observer's full trace plus the call counts of the user closures; the three lists must be
//! identical line by line.

use crate::json::J;
use crate::oracles::Which;
use crate::pull::Counters;
use crate::report::Report;
use crate::rng::{fnv, FNV0};
use crate::run_pull::make_pipe;
use crate::run_seq::make_case;
use crate::run_vclock::{make_vcase, run_vcase};
use crate::seq::{run_case, ALL_OPS, QUIET_PANICS};
use crate::world::render;
use crate::Opts;
use std::sync::atomic::Ordering;
use std::sync::Arc;

fn hash_lines(h: &mut u64, lines: &[String]) {
    for l in lines {
        for b in l.bytes() {
            fnv(h, b as u64);
        }
        fnv(h, 0x0a);
    }
}

pub fn case_ids(o: &Opts) -> Vec<String> {
    let thorough = o.tier == "thorough";
    let n1: u64 = o.cases.unwrap_or(if thorough { 40_000 } else { 8_000 });
    let n2: u64 = if thorough { 300_000 } else { 12_000 };
    let n3: u64 = if thorough { 100_000 } else { 6_000 };
    let mut v = vec![];
    for op in ALL_OPS {
        for i in 0..n1 {
            v.push(format!("E1:{}:{}", op, i));
        }
        // the larger size classes of E1 (tracing code sits in every branch of every operator: a
        // branch that only large configurations reach - the 129th member, the 256th inner source -
        // has to be compared too)
        for i in 0..n1 / 16 {
            v.push(format!("E1:{}+deep:{}", op, i));
        }
        if *op != "tree" {
            for i in 0..(n1 / 128).max(16) {
                v.push(format!("E1:{}+wide:{}", op, i));
            }
        }
    }
    for i in 0..n2 {
        v.push(format!("E2:pipeline:{}", i));
    }
    for i in 0..n3 {
        v.push(format!("E3:interval:{}", i));
    }
    v
}

/// (digest, number of events, rendered trace)
pub fn digest_case(seed: u64, id: &str, want_trace: bool) -> (u64, u64, Vec<String>) {
    let parts: Vec<&str> = id.split(':').collect();
    let index: u64 = parts[2].parse().unwrap_or(0);
    let mut h = FNV0;
    match parts[0] {
        "E1" => {
            let (spec, mut c) = make_case(seed, "C20", parts[1], index);
            let r = run_case(&spec, &mut c, &Which::default());
            let g = r.built.world.lock();
            let lines = render(&g);
            hash_lines(&mut h, &lines);
            fnv(&mut h, r.built.closure_calls.load(Ordering::SeqCst) as u64);
            for x in r.built.foreach_seen.lock().unwrap().iter() {
                fnv(&mut h, *x as u64);
            }
            for v in g.violations.iter() {
                for b in v.kind.bytes() {
                    fnv(&mut h, b as u64);
                }
            }
            if r.crate_panic.is_some() {
                fnv(&mut h, 0xDEAD);
            }
            (h, g.events.len() as u64, if want_trace { lines } else { vec![] })
        },
        "E2" => {
            let pipe = make_pipe(seed, index);
            let cc = Arc::new(Counters::default());
            QUIET_PANICS.with(|q| q.set(true));
            let r = std::panic::catch_unwind(std::panic::AssertUnwindSafe(|| crate::pull::run_pipeline(&pipe, &cc)));
            QUIET_PANICS.with(|q| q.set(false));
            let mut lines = vec![];
            let mut n = 0;
            match r {
                Ok((got, world)) => {
                    let g = world.lock();
                    lines = render(&g);
                    n = g.events.len() as u64;
                    hash_lines(&mut h, &lines);
                    for x in got {
                        fnv(&mut h, x as u64);
                    }
                },
                Err(_) => fnv(&mut h, 0xDEAD),
            }
            for c in cc.leaves.lock().unwrap().iter() {
                fnv(&mut h, c.load(Ordering::SeqCst) as u64);
            }
            for c in cc.inners.lock().unwrap().iter() {
                fnv(&mut h, c.load(Ordering::SeqCst) as u64);
            }
            fnv(&mut h, cc.closures.load(Ordering::SeqCst) as u64);
            (h, n, if want_trace { lines } else { vec![] })
        },
        _ => {
            let (case, mut c, rng) = make_vcase(seed, "C20", index);
            let r = run_vcase(&case, &mut c, rng);
            let g = r.world.lock();
            let lines = render(&g);
            hash_lines(&mut h, &lines);
            fnv(&mut h, r.polls);
            (h, g.events.len() as u64, if want_trace { lines } else { vec![] })
        },
    }
}

/// `cbverif digest`: print one line per case. Runs in whichever build it was compiled into.
pub fn digest_main(o: &Opts, subscriber: bool) -> i32 {
    if !built_with_tracing() {
        println!("NOT-A-TRACING-BUILD");
        return 0;
    }
    install_subscriber(subscriber);
    let ids = case_ids(o);
    let nthreads = o.threads.max(1);
    let mut outs: Vec<Vec<(usize, u64, u64)>> = vec![];
    std::thread::scope(|s| {
        let mut hs = vec![];
        for t in 0..nthreads {
            let ids = &ids;
            let seed = o.seed;
            hs.push(std::thread::Builder::new().stack_size(256 << 20).spawn_scoped(s, move || {
                let mut v = vec![];
                let mut i = t;
                while i < ids.len() {
                    let (h, n, _) = digest_case(seed, &ids[i], false);
                    v.push((i, h, n));
                    i += nthreads;
                }
                v
            }).expect("spawn worker"));
        }
        for h in hs {
            outs.push(h.join().unwrap_or_default());
        }
    });
    let mut all: Vec<(usize, u64, u64)> = outs.into_iter().flatten().collect();
    all.sort();
    let mut s = String::with_capacity(all.len() * 40);
    for (i, h, n) in all {
        s.push_str(&format!("{} {:016x} {}\n", ids[i], h, n));
    }
    print!("{}", s);
    0
}

#[cfg(feature = "tracing")]
fn install_subscriber(on: bool) {
    if on {
        let _ = tracing_subscriber::fmt()
            .with_max_level(tracing::Level::TRACE)
            .with_writer(std::io::sink)
            .try_init();
    }
}

#[cfg(not(feature = "tracing"))]
fn install_subscriber(_on: bool) {}

pub fn built_with_tracing() -> bool {
    cfg!(feature = "tracing")
}

fn run_other(bin: &str, o: &Opts, subscriber: bool) -> Result<Vec<String>, String> {
    let mut cmd = std::process::Command::new(bin);
    cmd.arg(if subscriber { "digest-sub" } else { "digest" })
        .arg("--seed")
        .arg(o.seed.to_string())
        .arg("--tier")
        .arg(&o.tier)
        .arg("--threads")
        .arg(o.threads.to_string());
    if let Some(c) = o.cases {
        cmd.arg("--cases").arg(c.to_string());
    }
    let out = cmd.output().map_err(|e| format!("cannot run {}: {}", bin, e))?;
    if !out.status.success() {
        return Err(format!("{} exited with {:?}: {}", bin, out.status.code(), String::from_utf8_lossy(&out.stderr)));
    }
    Ok(String::from_utf8_lossy(&out.stdout).lines().map(|l| l.to_string()).collect())
}

pub fn run(o: &Opts, rep: &mut Report) {
    let bin = match std::env::var("CBVERIF_TRACING_BIN") {
        Ok(b) => b,
        Err(_) => {
            rep.inconclusive.push("CBVERIF_TRACING_BIN not set (run through ./check)".into());
            return;
        },
    };
    if built_with_tracing() {
        rep.inconclusive.push("the base binary was built with the tracing feature".into());
        return;
    }
    let ids = case_ids(o);
    // base configuration: feature off, in this process
    let mut base: Vec<(u64, u64)> = vec![(0, 0); ids.len()];
    let nthreads = o.threads.max(1);
    std::thread::scope(|s| {
        let mut hs = vec![];
        for t in 0..nthreads {
            let ids = &ids;
            let seed = o.seed;
            hs.push(std::thread::Builder::new().stack_size(256 << 20).spawn_scoped(s, move || {
                let mut v = vec![];
                let mut i = t;
                while i < ids.len() {
                    let (h, n, _) = digest_case(seed, &ids[i], false);
                    v.push((i, h, n));
                    i += nthreads;
                }
                v
            }).expect("spawn worker"));
        }
        for h in hs {
            for (i, hh, n) in h.join().unwrap_or_default() {
                base[i] = (hh, n);
            }
        }
    });
    let mut distinct = std::collections::HashSet::new();
    for (i, (h, n)) in base.iter().enumerate() {
        rep.evaluations += 1;
        rep.events += *n;
        let e = rep.per_op.entry(ids[i].split(':').take(2).collect::<Vec<_>>().join(":")).or_insert([0; 3]);
        e[0] += 1;
        e[2] += *n;
        if *n > 2 {
            e[1] += 1;
            rep.nontrivial_cases += 1;
            distinct.insert(*h);
        }
    }
    rep.nontrivial = distinct;
    // samples: three compared cases written out (trace as seen without the feature + digest)
    for pick in [0usize, ids.len() / 2, ids.len().saturating_sub(1)] {
        if pick < ids.len() {
            let (h, n, trace) = digest_case(o.seed, &ids[pick], true);
            rep.samples.push(
                J::obj()
                    .set("case_id", J::s(&format!("E6:C20:{}:{}", o.seed, ids[pick])))
                    .set("digest", J::s(&format!("{:016x}", h)))
                    .set("events", J::i(n))
                    .set("trace_without_tracing", J::arr(trace.iter().take(60).map(|x| J::s(x)))),
            );
        }
    }
    for (name, sub) in [("feature on, no subscriber", false), ("feature on, TRACE subscriber", true)] {
        match run_other(&bin, o, sub) {
            Err(e) => rep.inconclusive.push(e),
            Ok(lines) => {
                if lines.len() != ids.len() {
                    rep.inconclusive.push(format!("{}: {} digest lines, expected {}", name, lines.len(), ids.len()));
                    continue;
                }
                if !lines.is_empty() && lines[0].starts_with("NOT-A-TRACING-BUILD") {
                    rep.inconclusive.push(format!("{}: the second binary was not built with the tracing feature", name));
                    continue;
                }
                let mut diffs = 0u64;
                for (i, l) in lines.iter().enumerate() {
                    let want = format!("{} {:016x} {}", ids[i], base[i].0, base[i].1);
                    if *l != want {
                        diffs += 1;
                        if diffs <= 3 {
                            let (_, _, trace) = digest_case(o.seed, &ids[i], true);
                            let detail = format!(
                                "case {} differs between the build without `tracing` and the build with it ({}): digests {} vs {}",
                                ids[i], name, want, l
                            );
                            let replay = J::obj()
                                .set("configuration", J::s(name))
                                .set("trace_without_tracing", J::arr(trace.iter().map(|x| J::s(x))))
                                .set("how_to_see_the_other_trace", J::s("./check C20 --replay <this file> prints the traces of both builds"));
                            rep.add_violation(
                                "C20",
                                &format!("tracing/observable-difference/{}", ids[i].split(':').nth(1).unwrap_or("")),
                                &detail,
                                &format!("E6:C20:{}:{}", o.seed, ids[i]),
                                replay,
                            );
                        }
                    }
                }
                rep.bump(&format!("cases compared ({})", name), lines.len() as u64);
                rep.bump(&format!("cases differing ({})", name), diffs);
            },
        }
    }
}

pub fn trace_main(o: &Opts, id: &str, subscriber: bool) -> i32 {
    install_subscriber(subscriber);
    let (h, n, trace) = digest_case(o.seed, id, true);
    println!(
        "build: tracing feature {}{}",
        if built_with_tracing() { "ON" } else { "OFF" },
        if subscriber { ", TRACE subscriber installed" } else { "" }
    );
    println!("digest {:016x} events {}", h, n);
    for l in trace {
        println!("{}", l);
    }
    0
}

pub fn replay(o: &Opts, parts: &[&str]) -> i32 {
    // E6:C20:<seed>:<engine>:<op>:<index>
    if parts.len() < 6 {
        eprintln!("malformed case id");
        return 2;
    }
    let seed: u64 = parts[2].parse().unwrap_or(1);
    let id = format!("{}:{}:{}", parts[3], parts[4], parts[5]);
    let mut o2 = clone_opts(o);
    o2.seed = seed;
    let (base, _, _) = digest_case(seed, &id, false);
    trace_main(&o2, &id, false);
    let mut differs = false;
    if let Ok(bin) = std::env::var("CBVERIF_TRACING_BIN") {
        for cmd in ["trace", "trace-sub"] {
            let out = std::process::Command::new(&bin).arg(cmd).arg("--seed").arg(seed.to_string()).arg("--file").arg(&id).output();
            if let Ok(out) = out {
                let so = String::from_utf8_lossy(&out.stdout).to_string();
                println!("{}", so);
                let want = format!("digest {:016x} ", base);
                if !so.lines().any(|l| l.starts_with(&want)) {
                    differs = true;
                }
            }
        }
    } else {
        println!("(CBVERIF_TRACING_BIN not set: run through ./check C20 --replay <file> to see the traces of the tracing build)");
    }
    if differs {
        println!("violation: the digests of the three configurations differ for case {}", id);
        1
    } else {
        0
    }
}

fn clone_opts(o: &Opts) -> Opts {
    Opts {
        prop: o.prop.clone(),
        tier: o.tier.clone(),
        seed: o.seed,
        known: o.known.clone(),
        evidence: o.evidence.clone(),
        replays: o.replays.clone(),
        threads: o.threads,
        cases: o.cases,
        ops: o.ops.clone(),
        replay_file: o.replay_file.clone(),
        verbose: o.verbose,
    }
}
