#![allow(dead_code, unused_mut, clippy::all)]
mod findings;
mod json;
mod oracles;
mod probe;
mod pull;
mod puppet;
mod report;
mod rng;
mod run_arity;
mod run_churn;
mod run_diff;
mod run_indep;
mod run_pull;
mod run_san;
mod run_sched;
mod run_vclock;
mod vclock;
mod run_seq;
mod sched;
mod selftest;
mod seq;
mod tap;
mod topo;
mod world;

use json::J;
use report::Report;
use std::time::Instant;

pub struct Opts {
    pub prop: String,
    pub tier: String,
    pub seed: u64,
    pub known: String,
    pub evidence: String,
    pub replays: String,
    pub threads: usize,
    pub cases: Option<u64>,
    pub ops: Option<Vec<String>>,
    pub replay_file: Option<String>,
    pub verbose: bool,
}

fn parse_args() -> (String, Opts) {
    let args: Vec<String> = std::env::args().collect();
    let cmd = args.get(1).cloned().unwrap_or_else(|| "help".into());
    let mut o = Opts {
        prop: "C01".into(),
        tier: std::env::var("VERIF_TIER").unwrap_or_else(|_| "quick".into()),
        seed: std::env::var("VERIF_SEED").ok().and_then(|s| s.parse().ok()).unwrap_or(1),
        known: "/verif/known_findings.txt".into(),
        evidence: String::new(),
        replays: "/verif/replays".into(),
        threads: std::thread::available_parallelism().map(|n| n.get()).unwrap_or(4),
        cases: None,
        ops: None,
        replay_file: None,
        verbose: false,
    };
    let mut i = 2;
    while i < args.len() {
        let a = args[i].as_str();
        let mut val = || {
            i += 1;
            args.get(i).cloned().unwrap_or_default()
        };
        match a {
            "--prop" => o.prop = val(),
            "--tier" => o.tier = val(),
            "--seed" => o.seed = val().parse().unwrap_or(1),
            "--known" => o.known = val(),
            "--evidence" => o.evidence = val(),
            "--replays" => o.replays = val(),
            "--threads" => o.threads = val().parse().unwrap_or(4),
            "--cases" => o.cases = val().parse().ok(),
            "--ops" => o.ops = Some(val().split(',').map(|s| s.to_string()).collect()),
            "--file" => o.replay_file = Some(val()),
            "-v" => o.verbose = true,
            _ => {
                eprintln!("unknown argument {}", a);
                std::process::exit(2);
            },
        }
        i += 1;
    }
    if o.evidence.is_empty() {
        o.evidence = format!("/verif/evidence/{}.json", o.prop);
    }
    (cmd, o)
}

fn main() {
    let (cmd, opts) = parse_args();
    seq::install_panic_hook();
    match cmd.as_str() {
        "check" => std::process::exit(check(&opts)),
        "replay" => std::process::exit(replay(&opts)),
        "race" => {
            let mut rep = Report::default();
            run_sched::real_executor_race(&opts, &mut rep);
            for (k, v) in rep.extra.iter() {
                println!("{}: {}", k, v.pretty());
            }
            std::process::exit(if rep.violations.is_empty() { 0 } else { 1 })
        },
        "selftest" => match selftest::run() {
            Ok(m) => {
                println!("selftest ok: {}", m);
                std::process::exit(0)
            },
            Err(e) => {
                println!("selftest FAILED: {}", e);
                std::process::exit(2)
            },
        },
        "slice" => std::process::exit(run_san::slice_main(&opts, opts.cases.unwrap_or(2), if opts.prop == "C17" { opts.cases.unwrap_or(6) } else { 0 })),
        "deepiter" => std::process::exit(run_san::deepiter_main(opts.cases.unwrap_or(200_000) as usize)),
        "digest" => std::process::exit(run_diff::digest_main(&opts, false)),
        "digest-sub" => std::process::exit(run_diff::digest_main(&opts, true)),
        "trace" => std::process::exit(run_diff::trace_main(&opts, &opts.replay_file.clone().unwrap_or_default(), false)),
        "trace-sub" => std::process::exit(run_diff::trace_main(&opts, &opts.replay_file.clone().unwrap_or_default(), true)),
        _ => {
            eprintln!("usage: cbverif check --prop <ID> [--tier quick|thorough] [--seed N] | replay --file <path>");
            std::process::exit(2);
        },
    }
}

fn check(o: &Opts) -> i32 {
    let t0 = Instant::now();
    let mut rep = Report::default();
    match selftest::run() {
        Ok(msg) => rep.extra.push(("harness_selftest".into(), J::s(&msg))),
        Err(e) => {
            println!("INCONCLUSIVE property={} reason=harness self-test failed: {}", o.prop, e);
            return 2;
        },
    }
    let mut engines: Vec<&str> = vec![];
    match o.prop.as_str() {
        "C01" | "C02" | "C03" | "C04" | "C05" | "C07" | "C08" | "C09" | "C10" | "C11" | "C12" | "C14" | "C15" | "C17" => {
            engines.push("E1-seq");
            run_seq::run_witnesses(o, &mut rep);
            run_seq::run(o, &mut rep);
            if o.ops.is_none() || o.cases.is_none() {
                run_seq::run_enum(o, &mut rep);
            }
            if o.prop == "C10" && o.ops.is_none() && o.cases.is_none() {
                engines.push("E1a high arity (combine! of 9 and 12 members against the latest-value model)");
                run_arity::run(o, &mut rep);
            }
            if matches!(o.prop.as_str(), "C12" | "C04") && o.ops.is_none() && o.cases.is_none() {
                engines.push("E1c-churn (long attach/detach histories against a reference model)");
                run_churn::run(o, &mut rep);
            }
            if o.prop == "C14" && o.ops.is_none() {
                engines.push("E2-pull (demand at the output of whole pull pipelines)");
                run_pull::run(o, &mut rep);
            }
            if o.prop == "C15" && o.ops.is_none() {
                run_san::deepiter_substep(o, &mut rep);
            }
            if o.prop == "C17" && o.tier == "thorough" && o.cases.is_none() {
                engines.push("E5-san (Miri)");
                run_san::substeps(o, &mut rep);
            }
            if matches!(o.prop.as_str(), "C01" | "C02" | "C03" | "C17") && o.ops.is_none() {
                // the interval cases of these properties run on the virtual clock
                engines.push("E3-vclock");
                run_vclock::run(o, &mut rep, 4);
            }
        },
        "C13" => {
            engines.push("E1-seq (three executions per case)");
            run_indep::run(o, &mut rep);
            if o.ops.is_none() {
                engines.push("E2-pull (pipelines in which one source value is subscribed repeatedly)");
                run_pull::run(o, &mut rep);
                engines.push("E2t-threads (one pipeline value subscribed from four threads at once)");
                run_indep::run_threads(o, &mut rep);
            }
            engines.push("E3-vclock");
            run_vclock::run(o, &mut rep, 4);
        },
        "C20" => {
            engines.push("E6-diff");
            run_diff::run(o, &mut rep);
        },
        "C16" => {
            engines.push("E3-vclock");
            run_vclock::run(o, &mut rep, 1);
            if o.tier == "thorough" && o.cases.is_none() {
                engines.push("E3r real-executor smoke (async-std)");
                run_vclock::real_executor_smoke(&mut rep);
            }
        },
        "C06" => {
            engines.push("E2-pull");
            run_pull::run(o, &mut rep);
        },
        "C18" | "C19" => {
            engines.push("E4-sched");
            run_sched::run(o, &mut rep);
            if o.prop == "C19" && o.cases.is_none() {
                engines.push("E4t tight free-running race on take (three delivering threads kept alive)");
                run_sched::tight_take_race(o, &mut rep);
            }
            if o.tier == "thorough" && o.cases.is_none() {
                engines.push("E4r real-executor race (async-std)");
                run_sched::real_executor_race(o, &mut rep);
                engines.push("E5-san (Miri, ThreadSanitizer)");
                run_san::substeps(o, &mut rep);
            }
        },
        p => {
            println!("INCONCLUSIVE property={} reason=no engine for this property yet", p);
            return 2;
        },
    }
    finish(o, rep, &engines, t0)
}

/// Print verdict lines, write replay files and the evidence file; return the exit code.
fn finish(o: &Opts, rep: Report, engines: &[&str], t0: Instant) -> i32 {
    let wall = t0.elapsed().as_secs_f64();
    let mut code = 0;
    let mut vio_lines = vec![];
    if !rep.violations.is_empty() {
        let _ = std::fs::create_dir_all(&o.replays);
        for (_, f) in rep.violations.iter() {
            let h = {
                let mut h = rng::FNV0;
                for b in f.signature.bytes() {
                    rng::fnv(&mut h, b as u64);
                }
                h
            };
            let path = format!("{}/{}-{:08x}.json", o.replays, f.property, (h & 0xffff_ffff) as u32);
            let doc = J::obj()
                .set("property", J::s(&f.property))
                .set("signature", J::s(&f.signature))
                .set("detail", J::s(&f.detail))
                .set("case_id", J::s(&f.case_id))
                .set("occurrences_in_this_run", J::i(f.count))
                .set("replay", f.replay.clone());
            let _ = std::fs::write(&path, doc.pretty());
            println!("VIOLATION property={} replay={}", f.property, path);
            println!("  signature={} occurrences={} first-case={}", f.signature, f.count, f.case_id);
            println!("  {}", f.detail);
            vio_lines.push(J::obj().set("signature", J::s(&f.signature)).set("count", J::i(f.count)).set("replay", J::s(&path)));
            code = 1;
        }
    }
    for (sig, (n, text)) in rep.known_hits.iter() {
        println!("KNOWN-FINDING: property={} {} [{}; seen {} times in this run]", o.prop, text, sig, n);
    }
    if !rep.harness_faults.is_empty() && code == 0 {
        for f in rep.harness_faults.iter().take(5) {
            println!("INCONCLUSIVE property={} reason=harness fault: {}", o.prop, f);
        }
        code = 2;
    }
    if !rep.inconclusive.is_empty() && code == 0 {
        for f in rep.inconclusive.iter().take(5) {
            println!("INCONCLUSIVE property={} reason={}", o.prop, f);
        }
        code = 2;
    }
    // coverage floors: every oracle clause of the property must have been exercised
    if code == 0 {
        let restricted = o.ops.is_some() || o.cases.is_some();
        for k in required_clauses(&o.prop) {
            if restricted && (k.starts_with("churn.") || k.starts_with("pipelines:")) {
                // a run restricted with --ops / --cases (development only) skips those engines
                continue;
            }
            if rep.exercised.get(*k).copied().unwrap_or(0) == 0 {
                println!("INCONCLUSIVE property={} reason=oracle clause `{}` was never exercised by this run", o.prop, k);
                code = 2;
            }
        }
    }
    let distinct = rep.nontrivial.len() as u64;
    if code == 0 && (rep.evaluations == 0 || distinct < 2) {
        println!("INCONCLUSIVE property={} reason=too few non-trivial executions ({} of {})", o.prop, distinct, rep.evaluations);
        code = 2;
    }
    let mut cov = J::obj()
        .set("evaluations", J::i(rep.evaluations))
        .set("distinct_nontrivial", J::i(distinct))
        .set("nontrivial_executions", J::i(rep.nontrivial_cases))
        .set("rule", J::s(&rule_text(&o.prop)))
        .set("samples", J::Arr(rep.samples.clone()))
        .set("events_observed", J::i(rep.events))
        .set("engines", J::arr(engines.iter().map(|e| J::s(e))))
        .set(
            "per_operator",
            J::Obj(
                rep.per_op
                    .iter()
                    .map(|(k, v)| {
                        (
                            k.clone(),
                            J::obj().set("executions", J::i(v[0])).set("nontrivial", J::i(v[1])).set("events", J::i(v[2])),
                        )
                    })
                    .collect(),
            ),
        )
        .set("oracle_clauses_exercised", J::map_counts(&rep.exercised))
        .set("distinct_schedules", J::i(rep.schedules.len() as u64))
        .set(
            "known_findings_matched",
            J::Obj(rep.known_hits.iter().map(|(k, v)| (k.clone(), J::i(v.0))).collect()),
        )
        .set("violations_found", J::Arr(vio_lines));
    if !rep.enumerated.is_empty() {
        cov.put("small_scope_enumeration", J::map_counts(&rep.enumerated));
        cov.put("exhaustive_scopes", J::arr(rep.exhaustive_scopes.iter().map(|s| J::s(s))));
    }
    for (k, v) in rep.extra.iter() {
        cov.put(k, v.clone());
    }
    let ev = J::obj()
        .set("property_id", J::s(&o.prop))
        .set("tier", J::s(if o.tier == "thorough" { "thorough" } else { "quick" }))
        .set("seed", J::i(o.seed))
        .set("level", J::s("exploration"))
        .set("coverage", cov)
        .set(
            "assumptions",
            J::arr(
                [
                    "harness puppets/probes/taps are spec-conformant peers (checked by the harness self-test and by the edge monitors on the harness side of every edge)",
                    "what was not executed was not decided: the verdict covers exactly the executions counted here",
                ]
                .iter()
                .map(|s| J::s(s)),
            ),
        )
        .set("wall_s", J::Num(wall))
        .set("violations", J::i(rep.violations.values().map(|f| f.count).sum::<u64>()))
        .set("verdict", J::s(match code {
            0 => "held on everything explored",
            1 => "violated",
            _ => "inconclusive",
        }));
    if let Some(dir) = std::path::Path::new(&o.evidence).parent() {
        let _ = std::fs::create_dir_all(dir);
    }
    if let Err(e) = std::fs::write(&o.evidence, ev.pretty()) {
        println!("INCONCLUSIVE property={} reason=cannot write evidence: {}", o.prop, e);
        return 2;
    }
    println!(
        "{} property={} tier={} seed={} executions={} distinct_nontrivial={} events={} wall={:.1}s",
        match code {
            0 => "HELD",
            1 => "VIOLATED",
            _ => "INCONCLUSIVE",
        },
        o.prop,
        o.tier,
        o.seed,
        rep.evaluations,
        distinct,
        rep.events,
        wall
    );
    code
}

fn required_clauses(prop: &str) -> &'static [&'static str] {
    match prop {
        "C04" => &["c04.subscription", "c04.relay", "c04.for_each", "churn.attach"],
        "C05" => &["c05.error-while-live"],
        "C06" => &["pipe-macro-left-to-right-test", "stage map+flatten", "stage concat", "pipelines over an unbounded iterator", "stage same source value subscribed repeatedly (concat)", "stage same source value subscribed repeatedly (flatten)", "stage same source value subscribed again from inside its own deliveries (overlapping subscriptions)"],
        "C07" => &["c07.compare", "c07.closure-calls", "c07.take-complete", "c07.take-upstream-stop", "c07.upstream-complete", "tree.unary-instance-steps"],
        "C08" => &["c08.greeting", "c08.late-greeter-after-over", "data-sequence", "fanin.completion", "fanin.pull-reaches-member", "tree.merge-instance-steps"],
        "C09" => &["c09.boundary", "c09.outstanding-pull", "data-sequence", "fanin.completion", "tree.concat-instance-steps"],
        "C10" => &["c10.greeting", "c10.arity-9-histories", "c10.arity-12-histories", "c10.high-arity-tuples-compared", "c10.all-ended-with-a-failure", "data-sequence", "fanin.completion", "fanin.pull-reaches-member", "tree.combine-instance-steps"],
        "C11" => &["c11.inner-emitted", "c11.switch", "c11.completion", "c11.pull-routing", "data-sequence", "tree.flatten-instance-steps"],
        "C12" => &["c12.attach", "c12.detach", "c12.fanout", "c12.resubscription", "churn.attach", "churn.datum-fanout", "churn.upstream-subscriptions"],
        "C13" => &["c13.solo-replays", "c13.threads.rounds-with-overlapping-subscriptions", "stage same source value subscribed repeatedly (concat)", "stage same source value subscribed repeatedly (flatten)"],
        "C14" => &["c14.prefix", "c14.quiescent", "pipelines: demand at the output judged"],
        "C15" => &["c15.step", "c15.next-call", "c15.exhausted", "c15.answered", "c15.deep-iterator-items-on-256KiB-stack"],
        "C16" => &["interval.ticks-delivered", "interval.cases-with-injected-spawn-failure", "interval.cases-with-disposal"],
        "C18" | "C19" => &["hook-yield-points"],
        _ => &[],
    }
}

fn rule_text(prop: &str) -> String {
    let trig = match prop {
        "C01" => "the sink (or an internal tap) was greeted and at least one further delivery or reaction happened on that edge",
        "C02" => "some sink or tap received a Terminate/Error",
        "C03" => "a sink disposed while at least one upstream subscription was still live",
        "C04" => "an upstream subscription that had greeted was ended or stopped (so the stop/relay rules were exercised)",
        "C05" => "an upstream puppet emitted an Error",
        _ => "at least one message was exchanged",
    };
    format!(
        "cases are generated from (seed, property, operator, case index) by a seeded PRNG choosing topology, peer modes, scripts, reaction policies and the driver schedule; an execution is non-trivial when {}; distinct = distinct abstract traces (sequence of (observer, direction, message kind, nesting depth), values dropped) among non-trivial executions",
        trig
    )
}

fn replay(o: &Opts) -> i32 {
    let path = match &o.replay_file {
        Some(p) => p.clone(),
        None => {
            eprintln!("--file required");
            return 2;
        },
    };
    let s = match std::fs::read_to_string(&path) {
        Ok(s) => s,
        Err(e) => {
            eprintln!("cannot read {}: {}", path, e);
            return 2;
        },
    };
    // the case id is all that is needed: "<engine>:<prop>:<seed>:<op>:<index>"
    let key = "\"case_id\": \"";
    let id = match s.find(key) {
        Some(p) => {
            let rest = &s[p + key.len()..];
            rest[..rest.find('"').unwrap_or(0)].to_string()
        },
        None => {
            eprintln!("no case_id in {}", path);
            return 2;
        },
    };
    let parts: Vec<&str> = id.split(':').collect();
    match parts.first().copied() {
        Some("E1") | Some("E1e") => run_seq::replay(o, &parts),
        Some("E4") | Some("E4e") => run_sched::replay(o, &parts),
        Some("E2") => run_pull::replay(o, &parts),
        Some("E3") => run_vclock::replay(o, &parts),
        Some("E1i") => run_indep::replay(o, &parts),
        Some("E1c") => run_churn::replay(o, &parts),
        Some("E6") => run_diff::replay(o, &parts),
        Some("E1w") | Some("E3w") => {
            println!("{} is a directed witness of a known finding; it is executed by every run of `./check {}` (see the evidence file, key known_finding_witnesses)", id, parts.get(1).unwrap_or(&""));
            2
        },
        Some("E4f") | Some("E4r") | Some("E3r") | Some("E5") | Some("E2d") | Some("E2m") => {
            println!(
                "{} comes from a sub-step that is not driven by a recorded schedule (free-running threads, a real executor, a sanitizer, a child process or a fixed macro test); the replay file holds the recorded history; re-run `./check {} thorough` to repeat the sub-step",
                id,
                o.prop
            );
            2
        },
        _ => {
            eprintln!("unknown engine in case id {}", id);
            2
        },
    }
}
