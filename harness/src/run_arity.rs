//! C10 at the arities the generic harness does not instantiate (round 9, `r9C10-a`): `combine!` of
//! 9 and of 12 listenable members, driven through random histories of emissions and completions and
//! judged against the latest-value model. The event log of E1 holds values of at most three
//! components, so this workload keeps its own small history: what the sink received, in order.

use crate::json::J;
use crate::report::Report;
use crate::rng::Rng;
use crate::seq::{take_last_panic, QUIET_PANICS};
use crate::Opts;
use callbag::{Message, Sink, Source};
use never::Never;
use std::panic::{catch_unwind, AssertUnwindSafe};
use std::sync::atomic::{AtomicBool, Ordering};
use std::sync::{Arc, Mutex};

struct Subj {
    sink: Mutex<Option<Arc<Sink<i64>>>>,
    stopped: AtomicBool,
    ended: AtomicBool,
}

impl Subj {
    fn new() -> Arc<Subj> {
        Arc::new(Subj { sink: Mutex::new(None), stopped: AtomicBool::new(false), ended: AtomicBool::new(false) })
    }
    fn live(&self) -> bool {
        !self.stopped.load(Ordering::SeqCst) && !self.ended.load(Ordering::SeqCst) && self.sink.lock().unwrap().is_some()
    }
    fn emit(&self, v: i64) {
        let s = self.sink.lock().unwrap().clone();
        if let Some(s) = s {
            s(Message::Data(v));
        }
    }
    fn end(&self) {
        self.ended.store(true, Ordering::SeqCst);
        let s = self.sink.lock().unwrap().take();
        if let Some(s) = s {
            s(Message::Terminate);
        }
    }
}

fn subj_source(s: &Arc<Subj>) -> Source<i64> {
    let s = Arc::clone(s);
    (move |m: Message<Never, i64>| {
        if let Message::Handshake(sink) = m {
            *s.sink.lock().unwrap() = Some(Arc::clone(&sink));
            let s2 = Arc::clone(&s);
            sink(Message::Handshake(Arc::new(
                (move |m: Message<Never, i64>| {
                    if let Message::Terminate | Message::Error(_) = m {
                        s2.stopped.store(true, Ordering::SeqCst);
                        *s2.sink.lock().unwrap() = None;
                    }
                })
                .into(),
            )));
        }
    })
    .into()
}

#[derive(Clone, Debug, PartialEq)]
enum Got {
    Greeted,
    Tuple(Vec<i64>),
    End,
    Err,
}

macro_rules! i64_of {
    ($x:tt) => {
        i64
    };
}

macro_rules! build {
    ($subs:expr, $got:expr, $($i:tt),+) => {{
        let out = callbag::combine!($(subj_source(&$subs[$i])),+);
        let got = Arc::clone(&$got);
        out(Message::Handshake(Arc::new(
            (move |m: Message<($(i64_of!($i),)+), Never>| match m {
                Message::Handshake(_) => got.lock().unwrap().push(Got::Greeted),
                Message::Data(t) => got.lock().unwrap().push(Got::Tuple(vec![$(t.$i),+])),
                Message::Pull => {},
                Message::Error(_) => got.lock().unwrap().push(Got::Err),
                Message::Terminate => got.lock().unwrap().push(Got::End),
            })
            .into(),
        )));
    }};
}

pub fn run(o: &Opts, rep: &mut Report) {
    let histories: u64 = if o.tier == "thorough" { 40_000 } else { 4_000 };
    for i in 0..histories {
        let arity = if i % 2 == 0 { 9usize } else { 12 };
        let mut rng = Rng::from_parts(&[o.seed, 0xC10A, i]);
        let subs: Vec<Arc<Subj>> = (0..arity).map(|_| Subj::new()).collect();
        let got: Arc<Mutex<Vec<Got>>> = Arc::new(Mutex::new(vec![]));
        let mut want: Vec<Got> = vec![Got::Greeted];
        let mut latest: Vec<Option<i64>> = vec![None; arity];
        let mut script: Vec<String> = vec![];
        let mut next = 1i64;
        QUIET_PANICS.with(|q| q.set(true));
        let r = catch_unwind(AssertUnwindSafe(|| {
            if arity == 9 {
                build!(subs, got, 0, 1, 2, 3, 4, 5, 6, 7, 8);
            } else {
                build!(subs, got, 0, 1, 2, 3, 4, 5, 6, 7, 8, 9, 10, 11);
            }
            // half of the histories give a value to the members in a random order first, so that
            // "nothing before all have one" is decided at every size of the set that has one
            let steps = 10 + rng.below(60);
            let mut order: Vec<usize> = (0..arity).collect();
            for k in (1..arity).rev() {
                order.swap(k, rng.below(k + 1));
            }
            let ordered = rng.chance(1, 2);
            for s in 0..steps {
                let alive: Vec<usize> = (0..arity).filter(|m| subs[*m].live()).collect();
                if alive.is_empty() {
                    break;
                }
                let m = if ordered && s < arity { order[s] } else { alive[rng.below(alive.len())] };
                if !subs[m].live() {
                    continue;
                }
                if rng.chance(1, 14) && !(ordered && s < arity) {
                    script.push(format!("member {} completes", m));
                    subs[m].end();
                    if subs.iter().all(|x| x.ended.load(Ordering::SeqCst)) {
                        want.push(Got::End);
                    }
                } else {
                    let v = next;
                    next += 1;
                    script.push(format!("member {} emits {}", m, v));
                    latest[m] = Some(v);
                    if latest.iter().all(|x| x.is_some()) {
                        want.push(Got::Tuple(latest.iter().map(|x| x.unwrap()).collect()));
                    }
                    subs[m].emit(v);
                }
            }
        }));
        QUIET_PANICS.with(|q| q.set(false));
        let got_v = got.lock().unwrap().clone();
        rep.evaluations += 1;
        rep.events += got_v.len() as u64 + script.len() as u64;
        rep.bump(if arity == 9 { "c10.arity-9-histories" } else { "c10.arity-12-histories" }, 1);
        rep.bump("c10.high-arity-tuples-compared", got_v.iter().filter(|g| matches!(g, Got::Tuple(_))).count() as u64);
        let id = format!("E1a:C10:{}:{}", o.seed, i);
        let bad: Option<(&str, String)> = match r {
            Err(_) => {
                let (loc, msg) = take_last_panic().unwrap_or_default();
                Some(("emitted-before-all-members-had-a-value", format!("combine! of {} members panicked at {} ({}) after: {}", arity, loc, msg, script.last().cloned().unwrap_or_default())))
            },
            Ok(()) if got_v != want => {
                let k = got_v.iter().zip(want.iter()).position(|(a, b)| a != b).unwrap_or(got_v.len().min(want.len()));
                Some(("not-the-latest-value-tuples", format!("combine! of {} members: sink message #{} is {:?}, the model says {:?}", arity, k, got_v.get(k), want.get(k))))
            },
            Ok(()) => None,
        };
        // break the member <-> combine reference cycles
        for s in subs.iter() {
            *s.sink.lock().unwrap() = None;
        }
        if let Some((kind, detail)) = bad {
            let replay = J::obj()
                .set("case_id", J::s(&id))
                .set("engine", J::s("E1a: combine! of 9 / 12 listenable members against the latest-value model"))
                .set("arity", J::i(arity as i64))
                .set("history", J::arr(script.iter().map(|l| J::s(l))))
                .set("sink_received", J::arr(got_v.iter().map(|g| J::s(&format!("{:?}", g)))))
                .set("model_expects", J::arr(want.iter().map(|g| J::s(&format!("{:?}", g)))));
            rep.add_violation("C10", &format!("combine/{}/arity-{}", kind, arity), &detail, &id, replay);
        }
    }
}
