//! C13: subscriptions are independent. Each case is executed three times: both subscriptions
//! interleaved, and each subscription alone on a fresh but identically constructed output; the
//! projection of the interleaved run onto each subscription's observers must equal its solo run.

use crate::json::J;
use crate::oracles::Which;
use crate::report::{load_known, Report};
use crate::rng::Chooser;
use crate::run_seq::{case_json, make_case};
use crate::seq::{run_case_full, Act, CaseResult, ALL_OPS};
use crate::world::{abstract_hash, Dir, Inner, Role};
use crate::Opts;
use std::collections::BTreeMap;
use std::sync::{Arc, Mutex};

pub const INDEP_OPS: &[&str] =
    &["map", "filter", "scan", "take", "skip", "merge", "concat", "combine", "flatten", "for_each", "tree", "from_iter"];

/// Render the events on the edges owned by subscription `x`, with subscription indices renamed
/// to ordinals among x's own edges and steps renamed to ordinals among x's own steps.
pub fn projection(g: &Inner, x: i32) -> Vec<String> {
    // ordinal of each edge among the edges of the same observer (puppet / tap / iterator) owned by x
    let mut ord: BTreeMap<usize, String> = BTreeMap::new();
    let mut counts: BTreeMap<String, usize> = BTreeMap::new();
    for (i, e) in g.edges.iter().enumerate() {
        if e.owner != x {
            continue;
        }
        let base = match e.role {
            Role::Probe(_) => "S".to_string(),
            Role::Puppet(p, _) => format!("P{}", p),
            Role::Tap(t, _) => format!("T{}", t),
            Role::Iter(l, _) => format!("I{}", l),
        };
        let n = counts.entry(base.clone()).or_insert(0);
        ord.insert(i, format!("{}#{}", base, n));
        *n += 1;
    }
    let mut step_ord: BTreeMap<u32, usize> = BTreeMap::new();
    for (s, o) in g.step_owners.iter().enumerate() {
        if *o == x {
            let n = step_ord.len();
            step_ord.insert(s as u32, n);
        }
    }
    let mut out = vec![];
    for ev in &g.events {
        let name = match ord.get(&(ev.edge as usize)) {
            Some(n) => n,
            None => continue,
        };
        let step = match step_ord.get(&ev.step) {
            Some(n) => format!("s{}", n),
            None => "during-a-step-of-the-other-subscription".to_string(),
        };
        // depth relative to the outermost event of the same step that belongs to x
        let err = if ev.err >= 0 {
            format!("[err:{}]", g.err_labels.get(ev.err as usize).cloned().unwrap_or_default())
        } else if ev.err == -2 {
            "[foreign-err]".to_string()
        } else {
            String::new()
        };
        out.push(format!(
            "{} {} {}{:?}{}{}",
            step,
            name,
            if ev.dir == Dir::Down { "v " } else { "^ " },
            ev.kind,
            if ev.val.n > 0 { format!("({})", ev.val.show()) } else { String::new() },
            err
        ));
    }
    out
}

/// translate the steps owned by `x` in the combined run into steps of a solo run
fn solo_steps(r: &CaseResult, x: i32) -> Vec<Act> {
    let g = r.built.world.lock();
    // puppet (p, k) -> ordinal among p's subscriptions owned by x
    let mut map: BTreeMap<(usize, usize), usize> = BTreeMap::new();
    let mut counts: BTreeMap<usize, usize> = BTreeMap::new();
    for e in g.edges.iter() {
        if let Role::Puppet(p, k) = e.role {
            if e.owner == x {
                let n = counts.entry(p as usize).or_insert(0);
                map.insert((p as usize, k as usize), *n);
                *n += 1;
            }
        }
    }
    let mut out = vec![];
    for (i, a) in r.steps.iter().enumerate() {
        let owner = g.step_owners.get(i + 1).copied().unwrap_or(-1);
        if owner != x {
            continue;
        }
        match a {
            Act::PuppetStep(p, k) => {
                if let Some(n) = map.get(&(*p, *k)) {
                    out.push(Act::PuppetStep(*p, *n));
                }
            },
            Act::PuppetGreet(p, k) => {
                if let Some(n) = map.get(&(*p, *k)) {
                    out.push(Act::PuppetGreet(*p, *n));
                }
            },
            other => out.push(other.clone()),
        }
    }
    out
}

pub fn run(o: &Opts, rep: &mut Report) {
    let known = load_known(&o.known);
    let _ = known;
    let ops: Vec<&'static str> = match &o.ops {
        Some(v) => ALL_OPS.iter().copied().filter(|x| v.iter().any(|y| y == x)).collect(),
        None => INDEP_OPS.to_vec(),
    };
    let total: u64 = o.cases.unwrap_or(if o.tier == "thorough" { 2_400_000 } else { 120_000 });
    let per_op = (total / ops.len() as u64).max(1);
    let which = Which::default();
    let nthreads = o.threads.max(1);
    let seed = o.seed;
    let mut reports: Vec<Report> = vec![];
    std::thread::scope(|s| {
        let mut hs = vec![];
        for t in 0..nthreads {
            let ops = ops.clone();
            let which = which.clone();
            hs.push(s.spawn(move || {
                let mut rep = Report::default();
                for op in ops.iter() {
                    let mut i = t as u64;
                    while i < per_op {
                        one_case(&mut rep, seed, op, i, &which, t == 0);
                        i += nthreads as u64;
                    }
                }
                rep
            }));
        }
        for h in hs {
            match h.join() {
                Ok(r) => reports.push(r),
                Err(_) => {
                    let mut r = Report::default();
                    r.harness_faults.push("worker thread panicked".into());
                    reports.push(r);
                },
            }
        }
    });
    for r in reports {
        rep.merge(r);
    }
}

pub fn one_case(rep: &mut Report, seed: u64, op: &str, i: u64, which: &Which, sample: bool) -> bool {
    let (spec, mut c) = make_case(seed, "C13", op, i);
    let both = run_case_full(&spec, &mut c, which, None, 0);
    let id = format!("E1i:C13:{}:{}:{}", seed, op, i);
    rep.evaluations += 1;
    let (n_events, hash, owners_seen) = {
        let g = both.built.world.lock();
        let a = g.step_owners.iter().filter(|o| **o == 0).count();
        let b = g.step_owners.iter().filter(|o| **o == 1).count();
        (g.events.len() as u64, abstract_hash(&g), (a, b))
    };
    rep.events += n_events;
    let e = rep.per_op.entry(op.to_string()).or_insert([0; 3]);
    e[0] += 1;
    e[2] += n_events;
    for f in &both.harness_faults {
        if rep.harness_faults.len() < 20 {
            rep.harness_faults.push(format!("{} [{}]", f, id));
        }
    }
    if both.crate_panic.is_some() {
        // C17's business; the comparison below would be meaningless
        return false;
    }
    // non-trivial: both subscriptions took steps and their steps were actually interleaved
    let interleaved = {
        let g = both.built.world.lock();
        let seq: Vec<i32> = g.step_owners.iter().copied().filter(|o| *o >= 0).collect();
        let mut changes = 0;
        for w in seq.windows(2) {
            if w[0] != w[1] {
                changes += 1;
            }
        }
        changes >= 2
    };
    if owners_seen.0 > 0 && owners_seen.1 > 0 && interleaved {
        e[1] += 1;
        rep.nontrivial_cases += 1;
        rep.nontrivial.insert(hash);
    }
    let mut found = false;
    for x in 0..2i32 {
        let acts = solo_steps(&both, x);
        if acts.is_empty() {
            continue;
        }
        let mut c2 = Chooser::scripted(vec![]);
        let solo = run_case_full(&spec, &mut c2, which, Some(&acts), x as usize);
        rep.bump("c13.solo-replays", 1);
        let pa = projection(&both.built.world.lock(), x);
        let pb = projection(&solo.built.world.lock(), x);
        if pa != pb {
            let k = pa.iter().zip(pb.iter()).position(|(a, b)| a != b).unwrap_or(pa.len().min(pb.len()));
            let detail = format!(
                "subscription {} behaves differently next to another subscription of the same output: first difference at projected event #{}: interleaved run has {:?}, solo run has {:?}",
                x,
                k,
                pa.get(k),
                pb.get(k)
            );
            let replay = case_json(&spec, &both)
                .set("subscription", J::i(x as i64))
                .set("projection_interleaved", J::arr(pa.iter().map(|l| J::s(l))))
                .set("projection_alone", J::arr(pb.iter().map(|l| J::s(l))));
            rep.add_violation("C13", &format!("{}/subscriptions-interfere", both.built.op), &detail, &id, replay);
            found = true;
            break;
        }
    }
    if sample && !found && rep.samples.len() < 3 && owners_seen.0 > 1 && owners_seen.1 > 1 {
        let base = case_json(&spec, &both);
        let (p0, p1) = {
            let g = both.built.world.lock();
            (projection(&g, 0), projection(&g, 1))
        };
        rep.samples.push(
            base.set("case_id", J::s(&id))
                .set("projection_subscription_0", J::arr(p0.iter().map(|l| J::s(l))))
                .set("projection_subscription_1", J::arr(p1.iter().map(|l| J::s(l)))),
        );
    }
    found
}

pub fn replay(_o: &Opts, parts: &[&str]) -> i32 {
    // E1i:C13:<seed>:<op>:<index>
    if parts.len() < 5 {
        eprintln!("malformed case id");
        return 2;
    }
    let seed: u64 = parts[2].parse().unwrap_or(1);
    let op = parts[3];
    let index: u64 = parts[4].parse().unwrap_or(0);
    let mut rep = Report::default();
    {
        let (spec, mut c) = make_case(seed, "C13", op, index);
        let both = run_case_full(&spec, &mut c, &Which::default(), None, 0);
        println!("{}", case_json(&spec, &both).pretty());
        let g = both.built.world.lock();
        for x in 0..2 {
            println!("projection of subscription {}:", x);
            for l in projection(&g, x) {
                println!("  {}", l);
            }
        }
    }
    let found = one_case(&mut rep, seed, op, index, &Which::default(), false);
    for (_, f) in rep.violations.iter() {
        println!("{}", f.replay.pretty());
        println!("violation: {} {}", f.signature, f.detail);
    }
    if found {
        1
    } else {
        println!("no difference between the interleaved and the solo runs");
        0
    }
}

// ---------------------------------------------------------------------------------------------
// E2t: one pull pipeline value subscribed from several threads at once (round 8, `r8C13-a`)
// ---------------------------------------------------------------------------------------------
//
// Two subscriptions of one output value may be driven by two threads - `Source` is `Send + Sync`
// and nothing of what a subscription owns is shared with another one - and each of them must still
// see exactly the list the pipeline computes. Every subscription is single-threaded here (one
// thread per subscription), so nothing is asked of the operators beyond C13 itself: whatever state
// differs between the subscriptions is per subscription. The oracle is the list function, computed
// with std iterators; a run in which the subscriptions did not overlap in time is not counted.

#[derive(Clone, Debug)]
enum TStage {
    Map(i64),
    Filter(i64),
    Scan(i64),
    Skip(usize),
    Take(usize),
}

fn t_expected(len: usize, stages: &[TStage], twice: bool) -> Vec<i64> {
    let mut v: Vec<i64> = (0..len as i64).collect();
    for s in stages {
        v = match s {
            TStage::Map(k) => v.into_iter().map(|x| x.wrapping_mul(3).wrapping_add(*k)).collect(),
            TStage::Filter(m) => v.into_iter().filter(|x| x.rem_euclid(*m) != 0).collect(),
            TStage::Scan(seed) => v
                .into_iter()
                .scan(*seed, |acc, x| {
                    *acc = acc.wrapping_add(x);
                    Some(*acc)
                })
                .collect(),
            TStage::Skip(n) => v.into_iter().skip(*n).collect(),
            TStage::Take(n) => v.into_iter().take(*n).collect(),
        };
    }
    if twice {
        let w = v.clone();
        v.extend(w);
    }
    v
}

fn t_build(len: usize, stages: &[TStage], twice: bool) -> Arc<callbag::Source<i64>> {
    let mut s: Arc<callbag::Source<i64>> = Arc::new(callbag::from_iter(0..len as i64));
    for st in stages {
        s = match st.clone() {
            TStage::Map(k) => Arc::new(callbag::map(move |x: i64| x.wrapping_mul(3).wrapping_add(k))(s)),
            TStage::Filter(m) => Arc::new(callbag::filter(move |x: &i64| x.rem_euclid(m) != 0)(s)),
            TStage::Scan(seed) => Arc::new(callbag::scan(move |acc: i64, x: i64| acc.wrapping_add(x), seed)(s)),
            TStage::Skip(n) => Arc::new(callbag::skip(n)(s)),
            TStage::Take(n) => Arc::new(callbag::take(n)(s)),
        };
    }
    if twice {
        // the same value as both members: the second subscription of it starts when the first is over
        let v: Vec<Arc<callbag::Source<i64>>> = vec![Arc::clone(&s), s];
        Arc::new(callbag::concat(v.into_boxed_slice()))
    } else {
        s
    }
}

pub fn run_threads(o: &Opts, rep: &mut Report) {
    use std::sync::atomic::{AtomicUsize, Ordering};
    let rounds: u64 = if o.tier == "thorough" { 600 } else { 60 };
    let nthr = 4usize;
    for i in 0..rounds {
        let mut rng = crate::rng::Rng::from_parts(&[o.seed, 0xC13_7, i]);
        let len = 8_000 + rng.below(24_000);
        let mut stages = vec![];
        for _ in 0..rng.below(4) {
            stages.push(match rng.below(5) {
                0 => TStage::Map(rng.below(7) as i64),
                1 => TStage::Filter(2 + rng.below(3) as i64),
                2 => TStage::Scan([0i64, 5, 100][rng.below(3)]),
                3 => TStage::Skip(rng.below(50)),
                _ => TStage::Take(len / 2 + rng.below(len)),
            });
        }
        let twice = rng.chance(1, 3);
        let want = t_expected(len, &stages, twice);
        let src = t_build(len, &stages, twice);
        let id = format!("E2t:C13:{}:{}", o.seed, i);
        let started = Arc::new(AtomicUsize::new(0));
        let finished = Arc::new(AtomicUsize::new(0));
        let overlapped = Arc::new(AtomicUsize::new(0));
        let barrier = Arc::new(std::sync::Barrier::new(nthr));
        let mut results: Vec<Result<Vec<i64>, String>> = vec![];
        crate::seq::QUIET_PANICS.with(|q| q.set(true));
        std::thread::scope(|sc| {
            let mut hs = vec![];
            for _ in 0..nthr {
                let src = Arc::clone(&src);
                let barrier = Arc::clone(&barrier);
                let (started, finished, overlapped) = (Arc::clone(&started), Arc::clone(&finished), Arc::clone(&overlapped));
                hs.push(sc.spawn(move || {
                    crate::seq::QUIET_PANICS.with(|q| q.set(true));
                    barrier.wait();
                    started.fetch_add(1, Ordering::SeqCst);
                    let seen = Arc::new(Mutex::new(Vec::<i64>::new()));
                    let r = std::panic::catch_unwind(std::panic::AssertUnwindSafe(|| {
                        let seen = Arc::clone(&seen);
                        callbag::pipe!(src, callbag::for_each(move |x: i64| seen.lock().unwrap().push(x)));
                    }));
                    // another subscription was running while this one ran to its end
                    if started.load(Ordering::SeqCst) - finished.load(Ordering::SeqCst) >= 2 {
                        overlapped.fetch_add(1, Ordering::SeqCst);
                    }
                    finished.fetch_add(1, Ordering::SeqCst);
                    let v = seen.lock().unwrap().clone();
                    match r {
                        Ok(()) => Ok(v),
                        Err(p) => Err(p.downcast_ref::<&str>().map(|s| s.to_string()).or_else(|| p.downcast_ref::<String>().cloned()).unwrap_or_else(|| "panic".into())),
                    }
                }));
            }
            for h in hs {
                results.push(h.join().unwrap_or_else(|_| Err("subscriber thread died".into())));
            }
        });
        crate::seq::QUIET_PANICS.with(|q| q.set(false));
        rep.evaluations += 1;
        rep.events += (want.len() * nthr) as u64;
        rep.bump("c13.threads.rounds", 1);
        rep.bump("c13.threads.items-compared", (want.len() * nthr) as u64);
        if overlapped.load(Ordering::SeqCst) >= 2 {
            rep.bump("c13.threads.rounds-with-overlapping-subscriptions", 1);
        }
        for (t, r) in results.iter().enumerate() {
            let bad = match r {
                Ok(v) if *v == want => None,
                Ok(v) => {
                    let k = v.iter().zip(want.iter()).position(|(a, b)| a != b).unwrap_or(v.len().min(want.len()));
                    Some(format!(
                        "subscriber thread {} of {} received {} items, the list function has {}; first difference at index {}: got {:?}, want {:?}",
                        t, nthr, v.len(), want.len(), k, v.get(k), want.get(k)
                    ))
                },
                Err(p) => Some(format!("subscriber thread {} of {} panicked inside the crate: {}", t, nthr, p)),
            };
            if let Some(detail) = bad {
                let replay = J::obj()
                    .set("case_id", J::s(&id))
                    .set("engine", J::s("E2t: one pipeline value, four subscribing threads (schedule-dependent: re-run the check)"))
                    .set("pipeline", J::s(&format!("from_iter(0..{}) |> {:?}{}", len, stages, if twice { " |> concat!(p.clone(), p)" } else { "" })))
                    .set("detail", J::s(&detail));
                rep.add_violation("C13", "pipeline/concurrent-subscriptions-interfere", &detail, &id, replay);
                break;
            }
        }
    }
}
