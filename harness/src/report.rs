//! Accumulates what a check run observed and turns it into verdict lines, replay files and the
//! evidence JSON.

use crate::json::J;
use std::collections::{BTreeMap, BTreeSet, HashSet};

#[derive(Clone, Debug)]
pub struct Known {
    pub property: String,
    pub signature: String,
    pub text: String,
}

pub fn load_known(path: &str) -> Vec<Known> {
    let mut v = vec![];
    if let Ok(s) = std::fs::read_to_string(path) {
        for line in s.lines() {
            let line = line.trim();
            if let Some(rest) = line.strip_prefix("open:") {
                let mut property = String::new();
                let mut signature = String::new();
                let (head, text) = match rest.split_once("::") {
                    Some((h, t)) => (h, t.trim().to_string()),
                    None => (rest, String::new()),
                };
                for tok in head.split_whitespace() {
                    if let Some(p) = tok.strip_prefix("property=") {
                        property = p.to_string();
                    }
                    if let Some(p) = tok.strip_prefix("signature=") {
                        signature = p.to_string();
                    }
                }
                if !property.is_empty() && !signature.is_empty() {
                    v.push(Known { property, signature, text });
                }
            }
        }
    }
    v
}

#[derive(Clone, Debug)]
pub struct Found {
    pub property: String,
    pub signature: String,
    pub detail: String,
    pub case_id: String,
    pub replay: J,
    pub count: u64,
}

#[derive(Default)]
pub struct Report {
    pub evaluations: u64,
    pub nontrivial: HashSet<u64>,
    pub nontrivial_cases: u64,
    pub schedules: HashSet<u64>,
    pub events: u64,
    pub per_op: BTreeMap<String, [u64; 3]>, // cases, nontrivial, events
    pub exercised: BTreeMap<String, u64>,
    pub samples: Vec<J>,
    pub violations: BTreeMap<String, Found>,
    pub known_hits: BTreeMap<String, (u64, String)>,
    pub harness_faults: Vec<String>,
    pub inconclusive: Vec<String>,
    pub extra: Vec<(String, J)>,
    pub enumerated: BTreeMap<String, u64>,
    pub exhaustive_scopes: BTreeSet<String>,
}

impl Report {
    pub fn merge(&mut self, o: Report) {
        self.evaluations += o.evaluations;
        self.nontrivial.extend(o.nontrivial);
        self.nontrivial_cases += o.nontrivial_cases;
        self.schedules.extend(o.schedules);
        self.events += o.events;
        for (k, v) in o.per_op {
            let e = self.per_op.entry(k).or_insert([0; 3]);
            for i in 0..3 {
                e[i] += v[i];
            }
        }
        for (k, v) in o.exercised {
            *self.exercised.entry(k).or_insert(0) += v;
        }
        for s in o.samples {
            if self.samples.len() < 5 {
                self.samples.push(s);
            }
        }
        for (k, v) in o.violations {
            match self.violations.get_mut(&k) {
                Some(e) => e.count += v.count,
                None => {
                    self.violations.insert(k, v);
                },
            }
        }
        for (k, v) in o.known_hits {
            let e = self.known_hits.entry(k).or_insert((0, v.1.clone()));
            e.0 += v.0;
        }
        for f in o.harness_faults {
            if self.harness_faults.len() < 20 {
                self.harness_faults.push(f);
            }
        }
        self.inconclusive.extend(o.inconclusive);
        self.extra.extend(o.extra);
        for (k, v) in o.enumerated {
            *self.enumerated.entry(k).or_insert(0) += v;
        }
        self.exhaustive_scopes.extend(o.exhaustive_scopes);
    }

    pub fn add_violation(&mut self, property: &str, signature: &str, detail: &str, case_id: &str, replay: J) {
        let key = format!("{}|{}", property, signature);
        match self.violations.get_mut(&key) {
            Some(e) => e.count += 1,
            None => {
                self.violations.insert(
                    key,
                    Found {
                        property: property.to_string(),
                        signature: signature.to_string(),
                        detail: detail.to_string(),
                        case_id: case_id.to_string(),
                        replay,
                        count: 1,
                    },
                );
            },
        }
    }

    pub fn bump(&mut self, k: &str, n: u64) {
        *self.exercised.entry(k.to_string()).or_insert(0) += n;
    }
}
