//! Transparent proxies placed on internal edges of a composed topology.

use crate::world::{Dir, Kind, Repr, Role, Val, World};
use callbag::{Message, Sink, Source};
use never::Never;
use std::sync::{
    atomic::{AtomicUsize, Ordering},
    Arc,
};

/// `tap(world, t, name, above, below, source)` forwards every message unchanged and
/// synchronously in both directions, logging it on a fresh edge per subscription.
pub fn tap<T: Repr + Send + Sync + 'static>(
    world: &Arc<World>,
    t: usize,
    name: &str,
    above: &str,
    below: &str,
    source: Arc<Source<T>>,
) -> Arc<Source<T>> {
    let world = Arc::clone(world);
    let name = name.to_string();
    let above = above.to_string();
    let below = below.to_string();
    let count = Arc::new(AtomicUsize::new(0));
    Arc::new(
        (move |message: Message<Never, T>| {
            if let Message::Handshake(sink) = message {
                let k = count.fetch_add(1, Ordering::SeqCst);
                let edge = world.new_edge(
                    Role::Tap(t as u16, k as u16),
                    format!("{}#{}", name, k),
                    &above,
                    &below,
                );
                let wrapped: Arc<Sink<T>> = {
                    let world = Arc::clone(&world);
                    Arc::new(
                        (move |message: Message<T, Never>| match message {
                            Message::Handshake(tb) => {
                                let wtb: Arc<Source<T>> = {
                                    let world = Arc::clone(&world);
                                    Arc::new(
                                        (move |message: Message<Never, T>| match message {
                                            Message::Pull => {
                                                let _f = world.enter(edge, Dir::Up, Kind::Pull, Val::none(), -1);
                                                tb(Message::Pull);
                                            },
                                            Message::Terminate => {
                                                let _f =
                                                    world.enter(edge, Dir::Up, Kind::Terminate, Val::none(), -1);
                                                tb(Message::Terminate);
                                            },
                                            Message::Error(e) => {
                                                let id = world.err_id(&e);
                                                let _f = world.enter(edge, Dir::Up, Kind::Error, Val::none(), id);
                                                tb(Message::Error(e));
                                            },
                                            Message::Handshake(h) => {
                                                let _f =
                                                    world.enter(edge, Dir::Up, Kind::Handshake, Val::none(), -1);
                                                tb(Message::Handshake(h));
                                            },
                                            Message::Data(_) => {},
                                        })
                                        .into(),
                                    )
                                };
                                let _f = world.enter(edge, Dir::Down, Kind::Handshake, Val::none(), -1);
                                sink(Message::Handshake(wtb));
                            },
                            Message::Data(d) => {
                                let v = d.repr();
                                let _f = world.enter(edge, Dir::Down, Kind::Data, v, -1);
                                sink(Message::Data(d));
                            },
                            Message::Terminate => {
                                let _f = world.enter(edge, Dir::Down, Kind::Terminate, Val::none(), -1);
                                sink(Message::Terminate);
                            },
                            Message::Error(e) => {
                                let id = world.err_id(&e);
                                let _f = world.enter(edge, Dir::Down, Kind::Error, Val::none(), id);
                                sink(Message::Error(e));
                            },
                            Message::Pull => {
                                let _f = world.enter(edge, Dir::Down, Kind::Pull, Val::none(), -1);
                                sink(Message::Pull);
                            },
                        })
                        .into(),
                    )
                };
                {
                    let _f = world.enter(edge, Dir::Up, Kind::Handshake, Val::none(), -1);
                    source(Message::Handshake(wrapped));
                }
            }
        })
        .into(),
    )
}
