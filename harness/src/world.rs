//! The event log shared by all observers of one case, and the universal edge monitors.
//!
//! An *edge* is one subscription seen from one observation point: a probe (the harness is the
//! sink), a puppet subscription (the harness is the source) or a tap (the harness forwards).
//! Messages travelling `Down` go source -> sink (Handshake, Data, Error, Terminate), messages
//! travelling `Up` go sink -> source through the talkback (Pull, Error, Terminate). The
//! subscription call itself is logged as `Up Handshake`.

use std::sync::{Arc, Mutex};

#[derive(Clone, Copy, PartialEq, Eq, Debug, Hash)]
pub enum Dir {
    Down,
    Up,
}

#[derive(Clone, Copy, PartialEq, Eq, Debug, Hash)]
pub enum Kind {
    Handshake,
    Data,
    Pull,
    Error,
    Terminate,
}

impl Kind {
    pub fn ch(self) -> char {
        match self {
            Kind::Handshake => 'H',
            Kind::Data => 'D',
            Kind::Pull => 'P',
            Kind::Error => 'E',
            Kind::Terminate => 'T',
        }
    }
    pub fn is_terminal(self) -> bool {
        matches!(self, Kind::Error | Kind::Terminate)
    }
}

/// Small value representation: up to three integers (combine tuples), or one integer.
#[derive(Clone, Copy, Debug, PartialEq, Eq, Default, Hash, PartialOrd, Ord)]
pub struct Val {
    pub n: u8,
    pub a: [i64; 3],
}

impl Val {
    pub fn none() -> Val {
        Val::default()
    }
    pub fn one(x: i64) -> Val {
        Val { n: 1, a: [x, 0, 0] }
    }
    pub fn show(&self) -> String {
        match self.n {
            0 => String::new(),
            1 => format!("{}", self.a[0]),
            2 => format!("({},{})", self.a[0], self.a[1]),
            _ => format!("({},{},{})", self.a[0], self.a[1], self.a[2]),
        }
    }
}

pub trait Repr {
    fn repr(&self) -> Val;
}
impl Repr for i64 {
    fn repr(&self) -> Val {
        Val::one(*self)
    }
}
impl Repr for usize {
    fn repr(&self) -> Val {
        Val::one(*self as i64)
    }
}
impl Repr for (i64,) {
    fn repr(&self) -> Val {
        Val { n: 1, a: [self.0, 0, 0] }
    }
}
impl Repr for (i64, i64) {
    fn repr(&self) -> Val {
        Val { n: 2, a: [self.0, self.1, 0] }
    }
}
impl Repr for (i64, i64, i64) {
    fn repr(&self) -> Val {
        Val { n: 3, a: [self.0, self.1, self.2] }
    }
}

#[derive(Clone, Copy, Debug, PartialEq, Eq, Hash)]
pub enum Role {
    Probe(u16),
    /// puppet index, subscription index
    Puppet(u16, u16),
    /// tap index, subscription index
    Tap(u16, u16),
    /// an instrumented iterator instance (leaf index, clone index): `Up Pull` = one next() call,
    /// value = the item returned (none when exhausted). Not a protocol edge: no monitors.
    Iter(u16, u16),
}

pub type EdgeId = usize;
pub type EvId = usize;

#[derive(Clone, Debug)]
pub struct Event {
    pub t_in: u32,
    pub t_out: u32,
    pub step: u32,
    pub depth: u16,
    pub parent: i32,
    pub edge: u16,
    pub dir: Dir,
    pub kind: Kind,
    pub val: Val,
    pub err: i32,
    pub thread: u16,
    /// Data deliveries in progress on this edge when this event was entered
    pub inflight: u16,
}

#[derive(Clone, Debug)]
pub struct Edge {
    pub role: Role,
    pub label: String,
    /// operator on the source side of the edge / on the sink side of the edge
    pub above: String,
    pub below: String,
    /// output subscription (probe index) this edge belongs to, -1 if unknown
    pub owner: i32,
    pub subscribed_at: u32,
    pub greeted: u32,
    pub down_term: bool,
    pub down_term_ev: i32,
    pub up_term: bool,
    pub up_term_ev: i32,
    pub data_down: u32,
    pub pulls_up: u32,
    pub data_inflight: u32,
    /// C16: the single Error with which interval refuses a subscription is sanctioned
    pub allow_ungreeted_error: bool,
    /// C15 robustness clauses: the harness sink may keep pulling after the end / after disposing
    pub lenient_sink: bool,
    pub events: Vec<u32>,
}

impl Edge {
    pub fn over(&self) -> bool {
        self.down_term || self.up_term
    }
    pub fn live(&self) -> bool {
        self.greeted > 0 && !self.over()
    }
}

#[derive(Clone, Debug)]
pub struct Violation {
    /// properties this violation refutes
    pub props: Vec<&'static str>,
    pub kind: &'static str,
    /// operator charged
    pub culprit: String,
    pub edge: EdgeId,
    pub edge_label: String,
    pub event: i32,
    pub step: u32,
    pub detail: String,
    /// filled by classifiers (known-finding context)
    pub context: String,
}

impl Violation {
    pub fn signature(&self) -> String {
        if self.context.is_empty() {
            format!("{}/{}", self.culprit, self.kind)
        } else {
            format!("{}/{}/{}", self.culprit, self.kind, self.context)
        }
    }
}

pub struct Inner {
    pub clock: u32,
    pub step: u32,
    pub owner: i32,
    pub events: Vec<Event>,
    pub edges: Vec<Edge>,
    pub stack: Vec<u32>,
    pub violations: Vec<Violation>,
    pub harness_faults: Vec<String>,
    pub errs: Vec<usize>,
    pub err_labels: Vec<String>,
    /// when false the edge monitors do not raise C01..C04 violations (E4 uses its own oracle)
    pub monitors_on: bool,
    pub notes: Vec<String>,
    /// owner (output subscription) of every env step, index = step number
    pub step_owners: Vec<i32>,
}

pub struct World {
    pub m: Mutex<Inner>,
}

thread_local! {
    pub static THREAD_IX: std::cell::Cell<u16> = std::cell::Cell::new(0);
}

pub struct OwnerScope<'a> {
    w: &'a World,
    prev: i32,
}

impl<'a> Drop for OwnerScope<'a> {
    fn drop(&mut self) {
        self.w.lock().owner = self.prev;
    }
}

pub struct Frame<'a> {
    w: &'a World,
    ev: EvId,
}

impl<'a> Drop for Frame<'a> {
    fn drop(&mut self) {
        self.w.exit(self.ev);
    }
}

impl World {
    pub fn new() -> Arc<World> {
        Arc::new(World {
            m: Mutex::new(Inner {
                clock: 0,
                step: 0,
                owner: -1,
                events: Vec::with_capacity(64),
                edges: Vec::with_capacity(8),
                stack: Vec::with_capacity(16),
                violations: vec![],
                harness_faults: vec![],
                errs: vec![],
                err_labels: vec![],
                monitors_on: true,
                notes: vec![],
                step_owners: vec![-1],
            }),
        })
    }

    pub fn lock(&self) -> std::sync::MutexGuard<'_, Inner> {
        match self.m.lock() {
            Ok(g) => g,
            Err(p) => p.into_inner(),
        }
    }

    pub fn new_edge(&self, role: Role, label: String, above: &str, below: &str) -> EdgeId {
        let mut g = self.lock();
        let owner = g.owner;
        let step = g.step;
        g.edges.push(Edge {
            role,
            label,
            above: above.to_string(),
            below: below.to_string(),
            owner,
            subscribed_at: step,
            greeted: 0,
            down_term: false,
            down_term_ev: -1,
            up_term: false,
            up_term_ev: -1,
            data_down: 0,
            pulls_up: 0,
            data_inflight: 0,
            allow_ungreeted_error: false,
            lenient_sink: false,
            events: vec![],
        });
        g.edges.len() - 1
    }

    pub fn register_err(&self, e: &Arc<dyn std::error::Error + Send + Sync + 'static>, label: &str) -> i32 {
        let p = Arc::as_ptr(e) as *const u8 as usize;
        let mut g = self.lock();
        if let Some(i) = g.errs.iter().position(|x| *x == p) {
            return i as i32;
        }
        g.errs.push(p);
        g.err_labels.push(label.to_string());
        (g.errs.len() - 1) as i32
    }

    pub fn err_id(&self, e: &Arc<dyn std::error::Error + Send + Sync + 'static>) -> i32 {
        let p = Arc::as_ptr(e) as *const u8 as usize;
        let g = self.lock();
        match g.errs.iter().position(|x| *x == p) {
            Some(i) => i as i32,
            None => -2,
        }
    }

    pub fn begin_step(&self, owner: i32) -> u32 {
        let mut g = self.lock();
        g.step += 1;
        g.owner = owner;
        g.step_owners.push(owner);
        g.step
    }

    pub fn set_owner(&self, owner: i32) {
        self.lock().owner = owner;
    }

    /// Attribute everything created until the guard is dropped (upstream subscriptions, taps,
    /// iterator clones) to output subscription `owner`: ownership follows the causal chain - the
    /// probe that acts, the upstream subscription that emits - not the env step, because one
    /// consumer may make another one act from inside its handlers.
    pub fn owner_scope(&self, owner: i32) -> OwnerScope<'_> {
        let mut g = self.lock();
        let prev = g.owner;
        if owner >= 0 {
            g.owner = owner;
        }
        OwnerScope { w: self, prev }
    }

    /// Log the entry of a message into an observation point and run the edge monitors.
    pub fn enter(&self, edge: EdgeId, dir: Dir, kind: Kind, val: Val, err: i32) -> Frame<'_> {
        let mut g = self.lock();
        g.clock += 1;
        let t_in = g.clock;
        let step = g.step;
        let depth = g.stack.len() as u16;
        let parent = g.stack.last().map(|x| *x as i32).unwrap_or(-1);
        let ev = g.events.len();
        let thread = THREAD_IX.with(|t| t.get());
        let inflight = g.edges[edge].data_inflight as u16;
        g.events.push(Event {
            t_in,
            t_out: u32::MAX,
            step,
            depth,
            parent,
            edge: edge as u16,
            dir,
            kind,
            val,
            err,
            thread,
            inflight,
        });
        g.stack.push(ev as u32);
        g.edges[edge].events.push(ev as u32);
        monitor(&mut g, edge, ev, dir, kind);
        Frame { w: self, ev }
    }

    fn exit(&self, ev: EvId) {
        let mut g = self.lock();
        g.clock += 1;
        let t = g.clock;
        g.events[ev].t_out = t;
        let e = g.events[ev].edge as usize;
        if g.events[ev].dir == Dir::Down && g.events[ev].kind == Kind::Data {
            let x = &mut g.edges[e].data_inflight;
            *x = x.saturating_sub(1);
        }
        // pop this event from the stack (it is on top in single-threaded engines; with threads
        // the stack is only advisory)
        if let Some(pos) = g.stack.iter().rposition(|x| *x as usize == ev) {
            g.stack.remove(pos);
        }
    }

    pub fn violate(
        &self,
        props: &[&'static str],
        kind: &'static str,
        culprit: &str,
        edge: EdgeId,
        event: i32,
        detail: String,
    ) {
        let mut g = self.lock();
        push_violation(&mut g, props, kind, culprit, edge, event, detail);
    }

    /// Drop everything the log holds. The crate's closures form reference cycles (a source holds
    /// its sink, the sink holds the source's talkback; concat's `next` holds itself), so a world
    /// may never be freed; after a case has been digested its contents are released explicitly.
    pub fn teardown(&self) {
        let mut g = self.lock();
        g.events = Vec::new();
        g.edges = Vec::new();
        g.violations = Vec::new();
        g.harness_faults = Vec::new();
        g.stack = Vec::new();
        g.errs = Vec::new();
        g.err_labels = Vec::new();
        g.notes = Vec::new();
        g.step_owners = Vec::new();
    }

    pub fn harness_fault(&self, msg: String) {
        self.lock().harness_faults.push(msg);
    }

    pub fn edge(&self, e: EdgeId) -> Edge {
        self.lock().edges[e].clone()
    }

    pub fn with_edge<R>(&self, e: EdgeId, f: impl FnOnce(&mut Edge) -> R) -> R {
        let mut g = self.lock();
        f(&mut g.edges[e])
    }
}

pub fn push_violation(
    g: &mut Inner,
    props: &[&'static str],
    kind: &'static str,
    culprit: &str,
    edge: EdgeId,
    event: i32,
    detail: String,
) {
    let step = g.step;
    let edge_label = g.edges.get(edge).map(|e| e.label.clone()).unwrap_or_default();
    g.violations.push(Violation {
        props: props.to_vec(),
        kind,
        culprit: culprit.to_string(),
        edge,
        edge_label,
        event,
        step,
        detail,
        context: String::new(),
    });
}

fn monitor(g: &mut Inner, edge: EdgeId, ev: EvId, dir: Dir, kind: Kind) {
    let on = g.monitors_on;
    let role = g.edges[edge].role;
    if let Role::Iter(..) = role {
        return;
    }
    // which side of this edge is crate code?
    let (down_is_sut, up_is_sut) = match role {
        Role::Probe(_) => (true, false),
        Role::Puppet(..) => (false, true),
        Role::Tap(..) => (true, true),
        Role::Iter(..) => (false, false),
    };
    let above = g.edges[edge].above.clone();
    let below = g.edges[edge].below.clone();
    let mut found: Vec<(&'static [&'static str], &'static str, String)> = vec![];
    {
        let e = &mut g.edges[edge];
        match (dir, kind) {
            (Dir::Up, Kind::Handshake) => {
                // subscription call; must be the first event on the edge
                if e.events.len() != 1 {
                    found.push((&["HARNESS"], "resubscribe-on-edge", String::new()));
                }
            },
            (Dir::Down, Kind::Handshake) => {
                if e.greeted > 0 {
                    found.push((&["C01"], "greeted-twice", String::new()));
                }
                if e.down_term {
                    found.push((&["C02"], "delivery-after-terminal", "Handshake".into()));
                } else if e.up_term {
                    found.push((&["C03"], "delivery-after-disposal", "Handshake".into()));
                }
                e.greeted += 1;
            },
            (Dir::Down, Kind::Data | Kind::Error | Kind::Terminate) => {
                if e.greeted == 0 {
                    if !(kind == Kind::Error && e.allow_ungreeted_error && !e.down_term) {
                        found.push((&["C01"], "delivery-before-greeting", format!("{:?}", kind)));
                    }
                }
                if e.down_term {
                    found.push((&["C02"], "delivery-after-terminal", format!("{:?}", kind)));
                } else if e.up_term {
                    found.push((&["C03"], "delivery-after-disposal", format!("{:?}", kind)));
                }
                if kind == Kind::Data {
                    e.data_down += 1;
                    e.data_inflight += 1;
                } else if !e.down_term {
                    e.down_term = true;
                    e.down_term_ev = ev as i32;
                }
            },
            (Dir::Down, Kind::Pull) => {
                found.push((&["C04"], "source-sent-pull", String::new()));
            },
            (Dir::Up, Kind::Pull) if e.lenient_sink && matches!(role, Role::Probe(_)) && (e.down_term || e.up_term) => {
                // a deliberately late Pull of the harness sink (from_iter must shrug it off)
                e.pulls_up += 1;
            },
            (Dir::Up, Kind::Pull) => {
                if e.greeted == 0 {
                    found.push((&["C04"], "pull-before-greeting", String::new()));
                } else if e.down_term {
                    found.push((&["C04"], "pull-after-upstream-ended", String::new()));
                } else if e.up_term {
                    found.push((&["C04"], "pull-after-stop", String::new()));
                }
                e.pulls_up += 1;
            },
            (Dir::Up, Kind::Error | Kind::Terminate) => {
                if e.greeted == 0 {
                    found.push((&["C04"], "stop-before-greeting", String::new()));
                } else if e.up_term {
                    found.push((&["C04"], "upstream-stopped-twice", String::new()));
                } else if e.down_term {
                    found.push((&["C04"], "upstream-stopped-after-it-ended", String::new()));
                }
                if !e.up_term {
                    e.up_term = true;
                    e.up_term_ev = ev as i32;
                }
            },
            (Dir::Up, Kind::Data) => {
                found.push((&["C04"], "sink-sent-data", String::new()));
            },
        }
    }
    for (props, k, detail) in found {
        let is_down = dir == Dir::Down;
        let sut = if props[0] == "HARNESS" {
            false
        } else if is_down {
            down_is_sut
        } else {
            up_is_sut
        };
        if sut {
            if on {
                let culprit = if is_down { above.clone() } else { below.clone() };
                push_violation(g, props, k, &culprit, edge, ev as i32, detail);
            }
        } else {
            let lbl = g.edges[edge].label.clone();
            g.harness_faults.push(format!("harness peer not conformant: {} on {} ({})", k, lbl, detail));
        }
    }
}

/// Render the whole log as readable lines (used for replay files and evidence samples).
pub fn render(g: &Inner) -> Vec<String> {
    let mut out = Vec::with_capacity(g.events.len());
    for (i, ev) in g.events.iter().enumerate() {
        let e = &g.edges[ev.edge as usize];
        let arrow = if ev.dir == Dir::Down { "v" } else { "^" };
        let mut s = format!(
            "#{:<3} s{:<2} {}{} {} {:?}",
            i,
            ev.step,
            "  ".repeat(ev.depth as usize),
            arrow,
            e.label,
            ev.kind
        );
        if ev.val.n > 0 {
            s.push_str(&format!("({})", ev.val.show()));
        }
        if ev.err >= 0 {
            s.push_str(&format!("[err{}]", ev.err));
        } else if ev.err == -2 {
            s.push_str("[foreign-err]");
        }
        if ev.thread != 0 {
            s.push_str(&format!(" @t{}", ev.thread));
        }
        out.push(s);
    }
    out
}

/// Abstract trace hash: (edge role, direction, kind, depth) sequence, values dropped.
pub fn abstract_hash(g: &Inner) -> u64 {
    let mut h = crate::rng::FNV0;
    for ev in &g.events {
        let e = &g.edges[ev.edge as usize];
        let r: u64 = match e.role {
            Role::Probe(i) => 0x1000 + i as u64,
            Role::Puppet(p, k) => 0x2000 + ((p as u64) << 4) + k as u64,
            Role::Tap(t, k) => 0x3000 + ((t as u64) << 4) + k as u64,
            Role::Iter(t, k) => 0x4000 + ((t as u64) << 4) + k as u64,
        };
        crate::rng::fnv(&mut h, r);
        crate::rng::fnv(
            &mut h,
            ((ev.dir == Dir::Up) as u64) << 8 | (ev.kind.ch() as u64) | ((ev.depth as u64) << 16),
        );
    }
    h
}
