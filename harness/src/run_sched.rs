//! C18 / C19 workloads and oracles on top of the controlled scheduler (E4).

use crate::json::J;
use crate::report::{load_known, Report};
use crate::rng::{next_script, Chooser, Rng};
use crate::sched::{install_global_hook, set_current_thread, take_trail, yield_here, Sched, Strategy};
use crate::seq::{is_crate_location, take_last_panic, QUIET_PANICS};
use crate::topo::{Src, V};
use crate::world::{Kind, Repr, Val};
use crate::Opts;
use callbag::{Message, Sink, Source};
use never::Never;
use std::panic::{catch_unwind, AssertUnwindSafe};
use std::sync::atomic::{AtomicBool, Ordering};
#[allow(unused_imports)]
use callbag::merge;
use std::sync::{Arc, Mutex};

#[derive(Clone, Copy, Debug, PartialEq, Eq)]
pub enum Obs {
    Probe,
    /// talkback of member i (messages the operator sent up to member i)
    Member(usize),
    /// the edge between merge and take (C19 through merge): Up messages only
    Mid,
    /// what the probe itself sends up (its disposal)
    ProbeUp,
}

#[derive(Clone, Debug)]
pub struct REv {
    pub obs: Obs,
    pub thread: usize,
    pub kind: Kind,
    pub val: Val,
    pub enter: bool,
    /// number of Data deliveries to the probe in progress when this event was recorded
    pub inflight: i32,
}

#[derive(Default)]
pub struct RecInner {
    pub evs: Vec<REv>,
    pub inflight: i32,
}

pub struct Rec {
    pub m: Mutex<RecInner>,
}

impl Rec {
    fn new() -> Arc<Rec> {
        Arc::new(Rec { m: Mutex::new(RecInner::default()) })
    }
    fn lock(&self) -> std::sync::MutexGuard<'_, RecInner> {
        match self.m.lock() {
            Ok(g) => g,
            Err(p) => p.into_inner(),
        }
    }
    fn log(&self, obs: Obs, kind: Kind, val: Val, enter: bool) {
        let thread = crate::sched::CUR.with(|c| c.borrow().as_ref().map(|x| x.1).unwrap_or(99));
        let mut g = self.lock();
        if obs == Obs::Probe && kind == Kind::Data && !enter {
            g.inflight -= 1;
        }
        let inflight = g.inflight;
        g.evs.push(REv { obs, thread, kind, val, enter, inflight });
        if obs == Obs::Probe && kind == Kind::Data && enter {
            g.inflight += 1;
        }
    }
}

/// `dispose_at`: the sink sends Terminate up from inside the handler of its k-th datum (1-based)
fn probe_sink<T: Repr + Send + Sync + 'static>(rec: &Arc<Rec>, pulls: bool, dispose_at: Option<usize>) -> Arc<Sink<T>> {
    let rec = Arc::clone(rec);
    let tb: Arc<Mutex<Option<Arc<Source<T>>>>> = Arc::new(Mutex::new(None));
    let over = Arc::new(AtomicBool::new(false));
    let n_data = Arc::new(std::sync::atomic::AtomicUsize::new(0));
    Arc::new(
        (move |message: Message<T, Never>| {
            let pull = |tb: &Arc<Mutex<Option<Arc<Source<T>>>>>| {
                if pulls && !over.load(Ordering::SeqCst) {
                    let t = tb.lock().unwrap().clone();
                    if let Some(t) = t {
                        t(Message::Pull);
                    }
                }
            };
            match message {
                Message::Handshake(t) => {
                    rec.log(Obs::Probe, Kind::Handshake, Val::none(), true);
                    *tb.lock().unwrap() = Some(t);
                    yield_here("probe:greeted");
                    pull(&tb);
                    rec.log(Obs::Probe, Kind::Handshake, Val::none(), false);
                },
                Message::Data(d) => {
                    rec.log(Obs::Probe, Kind::Data, d.repr(), true);
                    yield_here("probe:data-in");
                    let nth = n_data.fetch_add(1, Ordering::SeqCst) + 1;
                    if dispose_at == Some(nth) && !over.swap(true, Ordering::SeqCst) {
                        // a conformant sink: it has received no terminal, and it sends its own once
                        let t = tb.lock().unwrap().clone();
                        if let Some(t) = t {
                            // (a sink that pulls leaves with an Error, a passive one with Terminate)
                            if pulls {
                                rec.log(Obs::ProbeUp, Kind::Error, Val::none(), true);
                                t(Message::Error(Arc::new(TErr)));
                                rec.log(Obs::ProbeUp, Kind::Error, Val::none(), false);
                            } else {
                                rec.log(Obs::ProbeUp, Kind::Terminate, Val::none(), true);
                                t(Message::Terminate);
                                rec.log(Obs::ProbeUp, Kind::Terminate, Val::none(), false);
                            }
                        }
                    }
                    pull(&tb);
                    yield_here("probe:data-out");
                    rec.log(Obs::Probe, Kind::Data, d.repr(), false);
                },
                Message::Terminate => {
                    over.store(true, Ordering::SeqCst);
                    rec.log(Obs::Probe, Kind::Terminate, Val::none(), true);
                    yield_here("probe:terminate");
                    rec.log(Obs::Probe, Kind::Terminate, Val::none(), false);
                },
                Message::Error(_) => {
                    over.store(true, Ordering::SeqCst);
                    rec.log(Obs::Probe, Kind::Error, Val::none(), true);
                    yield_here("probe:error");
                    rec.log(Obs::Probe, Kind::Error, Val::none(), false);
                },
                Message::Pull => {},
            }
        })
        .into(),
    )
}

/// A member source whose deliveries are made by a dedicated thread.
pub struct TMember {
    pub ix: usize,
    pub sink: Mutex<Option<Arc<Sink<V>>>>,
    pub stopped: AtomicBool,
    pub greet_on_subscribe: bool,
    pub rec: Arc<Rec>,
    pub sched: Arc<Sched>,
    /// scheduler thread id that delivers for this member
    pub tid: usize,
}

#[derive(Debug)]
struct TErr;
impl std::fmt::Display for TErr {
    fn fmt(&self, f: &mut std::fmt::Formatter<'_>) -> std::fmt::Result {
        write!(f, "member failed")
    }
}
impl std::error::Error for TErr {}

impl TMember {
    fn talkback(self: &Arc<Self>) -> Arc<Source<V>> {
        let me = Arc::clone(self);
        Arc::new(
            (move |message: Message<Never, V>| match message {
                Message::Pull => me.rec.log(Obs::Member(me.ix), Kind::Pull, Val::none(), true),
                Message::Terminate => {
                    me.rec.log(Obs::Member(me.ix), Kind::Terminate, Val::none(), true);
                    me.stopped.store(true, Ordering::SeqCst);
                },
                Message::Error(_) => {
                    me.rec.log(Obs::Member(me.ix), Kind::Error, Val::none(), true);
                    me.stopped.store(true, Ordering::SeqCst);
                },
                _ => {},
            })
            .into(),
        )
    }
    fn source(self: &Arc<Self>) -> Src<V> {
        let me = Arc::clone(self);
        Arc::new(
            (move |message: Message<Never, V>| {
                if let Message::Handshake(sink) = message {
                    *me.sink.lock().unwrap() = Some(Arc::clone(&sink));
                    if me.greet_on_subscribe {
                        sink(Message::Handshake(me.talkback()));
                    }
                    // from now on the delivering thread may run
                    me.sched.enable(me.tid);
                }
            })
            .into(),
        )
    }
}

#[derive(Clone, Debug, PartialEq, Eq)]
pub enum Shape {
    Merge,
    Combine,
    /// take(n) fed directly by several threads sharing one sink handle
    TakeDirect(usize),
    /// take(n) over merge!
    TakeMerge(usize),
    /// combine!(merge!(a, b), c): one slot of combine is fed from two threads
    CombineOverMerge,
}

#[derive(Clone, Debug)]
pub struct Scenario {
    pub shape: Shape,
    /// data items per delivering thread
    pub data: Vec<usize>,
    pub fail: Option<usize>,
    pub own_greet: bool,
    pub probe_pulls: bool,
    /// C19 only: the sink disposes from inside the handler of its k-th datum
    pub dispose_at: Option<usize>,
    /// C19, TakeDirect only: when the racing threads are done, the same take value is subscribed
    /// once more by a fresh sink and fed n + 1 data from one thread
    pub resubscribe: bool,
}

impl Scenario {
    pub fn describe(&self) -> String {
        format!(
            "{:?} threads={} data={:?} fail={:?} greet={} sink={}{}",
            self.shape,
            self.data.len(),
            self.data,
            self.fail,
            if self.own_greet { "own-thread" } else { "subscribing-thread" },
            if self.probe_pulls { "pulls" } else { "passive" },
            match (self.dispose_at, self.resubscribe) {
                (Some(k), _) => format!(" disposes-in-datum-{}", k),
                (None, true) => " then-subscribed-again".to_string(),
                _ => String::new(),
            }
        )
    }
}

pub struct Outcome {
    pub evs: Vec<REv>,
    pub panic: Option<(String, String)>,
    pub aborted: bool,
    pub sched_hash: u64,
    pub preemptions: usize,
    pub steps: usize,
    pub site_hits: std::collections::BTreeMap<String, u64>,
    pub preempted_at: std::collections::BTreeMap<String, u64>,
    pub trail: Vec<(usize, usize)>,
    pub sent: Vec<Vec<i64>>,
    /// data whose delivery call had returned before the failing member began to deliver its Error
    /// (all data, if no member fails): these are owed to the sink
    pub owed: Vec<i64>,
    /// the second, single-threaded subscription of the same take value (Scenario::resubscribe):
    /// (what its sink observed, terminals its upstream subscription received)
    pub second: Option<(Vec<REv>, usize)>,
}

fn member_value(m: usize, i: usize) -> i64 {
    (m as i64 + 1) * 100 + i as i64
}

pub fn run_one(scn: &Scenario, strategy: Strategy) -> Outcome {
    let k = scn.data.len();
    let sched = Sched::new(k + 1, strategy);
    let rec = Rec::new();
    let panic_slot: Arc<Mutex<Option<(String, String)>>> = Arc::new(Mutex::new(None));
    let sent: Arc<Mutex<Vec<Vec<i64>>>> = Arc::new(Mutex::new(vec![vec![]; k]));
    // (value, delivery returned?) in send order, and whether the failure has begun
    let done: Arc<Mutex<(Vec<i64>, bool)>> = Arc::new(Mutex::new((vec![], false)));
    let direct = matches!(scn.shape, Shape::TakeDirect(_));
    // members: for TakeDirect there is one source, shared by all delivering threads
    let n_sources = if direct { 1 } else { k };
    let members: Vec<Arc<TMember>> = (0..n_sources)
        .map(|i| {
            Arc::new(TMember {
                ix: i,
                sink: Mutex::new(None),
                stopped: AtomicBool::new(false),
                greet_on_subscribe: !scn.own_greet || direct,
                rec: Arc::clone(&rec),
                sched: Arc::clone(&sched),
                tid: i + 1,
            })
        })
        .collect();
    let mid_tap = |src: Src<V>| -> Src<V> {
        // records what take sends up to merge
        let rec = Arc::clone(&rec);
        Arc::new(
            (move |message: Message<Never, V>| {
                if let Message::Handshake(sink) = message {
                    let rec = Arc::clone(&rec);
                    let wrapped: Arc<Sink<V>> = Arc::new(
                        (move |message: Message<V, Never>| match message {
                            Message::Handshake(tb) => {
                                let rec = Arc::clone(&rec);
                                let wtb: Arc<Source<V>> = Arc::new(
                                    (move |message: Message<Never, V>| {
                                        match &message {
                                            Message::Pull => rec.log(Obs::Mid, Kind::Pull, Val::none(), true),
                                            Message::Terminate => rec.log(Obs::Mid, Kind::Terminate, Val::none(), true),
                                            Message::Error(_) => rec.log(Obs::Mid, Kind::Error, Val::none(), true),
                                            _ => {},
                                        }
                                        tb(message)
                                    })
                                    .into(),
                                );
                                sink(Message::Handshake(wtb))
                            },
                            m => sink(m),
                        })
                        .into(),
                    );
                    src(Message::Handshake(wrapped));
                }
            })
            .into(),
        )
    };

    QUIET_PANICS.with(|q| q.set(true));
    set_current_thread(Some((Arc::clone(&sched), 0)));
    // delivering threads
    let mut handles = vec![];
    for t in 0..k {
        let sched = Arc::clone(&sched);
        let m = Arc::clone(&members[if direct { 0 } else { t }]);
        let n_data = scn.data[t];
        let fails = scn.fail == Some(t);
        let own_greet = scn.own_greet && !direct;
        let panic_slot = Arc::clone(&panic_slot);
        let sent = Arc::clone(&sent);
        let done = Arc::clone(&done);
        let send_terminal = !direct;
        handles.push(std::thread::spawn(move || {
            QUIET_PANICS.with(|q| q.set(true));
            let tid = t + 1;
            set_current_thread(Some((Arc::clone(&sched), tid)));
            if sched.start(tid) {
                let r = catch_unwind(AssertUnwindSafe(|| {
                    let sink = m.sink.lock().unwrap().clone();
                    if let Some(sink) = sink {
                        if own_greet {
                            sink(Message::Handshake(m.talkback()));
                        }
                        for i in 0..n_data {
                            if m.stopped.load(Ordering::SeqCst) {
                                break;
                            }
                            let v = member_value(t, i);
                            sent.lock().unwrap()[t].push(v);
                            sink(Message::Data(v));
                            let mut d = done.lock().unwrap();
                            if !d.1 {
                                d.0.push(v);
                            }
                        }
                        if send_terminal && !m.stopped.load(Ordering::SeqCst) {
                            if fails {
                                done.lock().unwrap().1 = true;
                                sink(Message::Error(Arc::new(TErr)));
                            } else {
                                sink(Message::Terminate);
                            }
                        }
                    }
                }));
                if r.is_err() {
                    if let Some(p) = take_last_panic() {
                        let mut s = panic_slot.lock().unwrap();
                        if s.is_none() {
                            *s = Some(p);
                        }
                    }
                }
                sched.finish(tid);
            }
            set_current_thread(None);
        }));
    }
    let kept: Mutex<Option<Src<V>>> = Mutex::new(None);
    // the subscribing thread
    let r = catch_unwind(AssertUnwindSafe(|| match &scn.shape {
        Shape::Merge => {
            let srcs: Vec<Src<V>> = members.iter().map(|m| m.source()).collect();
            let out: Src<V> = Arc::new(callbag::merge(srcs.into_boxed_slice()));
            out(Message::Handshake(probe_sink::<V>(&rec, scn.probe_pulls, scn.dispose_at)));
        },
        Shape::Combine => {
            if k == 2 {
                let out: Src<(V, V)> = Arc::new(callbag::combine!(members[0].source(), members[1].source()));
                out(Message::Handshake(probe_sink::<(V, V)>(&rec, scn.probe_pulls, None)));
            } else {
                let out: Src<(V, V, V)> =
                    Arc::new(callbag::combine!(members[0].source(), members[1].source(), members[2].source()));
                out(Message::Handshake(probe_sink::<(V, V, V)>(&rec, scn.probe_pulls, None)));
            }
        },
        Shape::CombineOverMerge => {
            let srcs: Vec<Src<V>> = vec![members[0].source(), members[1].source()];
            let merged: Src<V> = Arc::new(callbag::merge(srcs.into_boxed_slice()));
            let out: Src<(V, V)> = Arc::new(callbag::combine!(merged, members[2].source()));
            out(Message::Handshake(probe_sink::<(V, V)>(&rec, scn.probe_pulls, None)));
        },
        Shape::TakeDirect(n) => {
            let out: Src<V> = Arc::new(callbag::take(*n)(members[0].source()));
            *kept.lock().unwrap() = Some(Arc::clone(&out));
            out(Message::Handshake(probe_sink::<V>(&rec, scn.probe_pulls, scn.dispose_at)));
            // all delivering threads share the one sink handle
            for t in 1..k {
                sched.enable(t + 1);
            }
        },
        Shape::TakeMerge(n) => {
            let srcs: Vec<Src<V>> = members.iter().map(|m| m.source()).collect();
            let merged: Src<V> = Arc::new(callbag::merge(srcs.into_boxed_slice()));
            let out: Src<V> = Arc::new(callbag::take(*n)(mid_tap(merged)));
            out(Message::Handshake(probe_sink::<V>(&rec, scn.probe_pulls, scn.dispose_at)));
        },
    }));
    if r.is_err() {
        if let Some(p) = take_last_panic() {
            let mut s = panic_slot.lock().unwrap();
            if s.is_none() {
                *s = Some(p);
            }
        }
    }
    sched.finish(0);
    set_current_thread(None);
    for h in handles {
        let _ = h.join();
    }
    // TakeDirect: the upstream completes (single-threaded now) unless take has stopped it
    if direct {
        let m = &members[0];
        if !m.stopped.load(Ordering::SeqCst) {
            let sink = m.sink.lock().unwrap().clone();
            if let Some(sink) = sink {
                let r = catch_unwind(AssertUnwindSafe(|| sink(Message::Terminate)));
                if r.is_err() {
                    if let Some(p) = take_last_panic() {
                        let mut s = panic_slot.lock().unwrap();
                        if s.is_none() {
                            *s = Some(p);
                        }
                    }
                }
            }
        }
    }
    // the same take value once more, single-threaded, with a fresh sink
    let mut second = None;
    if let (true, Shape::TakeDirect(n), Some(out)) = (scn.resubscribe, &scn.shape, kept.lock().unwrap().clone()) {
        let m = &members[0];
        let mark = rec.lock().evs.len();
        m.stopped.store(false, Ordering::SeqCst);
        let rec2 = Rec::new();
        let r = catch_unwind(AssertUnwindSafe(|| {
            out(Message::Handshake(probe_sink::<V>(&rec2, false, None)));
            let sink = m.sink.lock().unwrap().clone();
            if let Some(sink) = sink {
                for i in 0..(*n + 1) {
                    if m.stopped.load(Ordering::SeqCst) {
                        break;
                    }
                    sink(Message::Data(900 + i as i64));
                }
                if !m.stopped.load(Ordering::SeqCst) {
                    sink(Message::Terminate);
                }
            }
        }));
        if r.is_err() {
            if let Some(p) = take_last_panic() {
                let mut s = panic_slot.lock().unwrap();
                if s.is_none() {
                    *s = Some(p);
                }
            }
        }
        let ups = rec.lock().evs[mark..].iter().filter(|e| e.obs == Obs::Member(0) && e.kind.is_terminal()).count();
        // what follows the mark belongs to the second subscription only
        rec.lock().evs.truncate(mark);
        second = Some((rec2.lock().evs.clone(), ups));
    }
    QUIET_PANICS.with(|q| q.set(false));
    let trail = take_trail(&sched);
    let g = sched.m.lock().unwrap_or_else(|p| p.into_inner());
    let evs = rec.lock().evs.clone();
    let panic = panic_slot.lock().unwrap().clone();
    let sent = sent.lock().unwrap().clone();
    let owed = done.lock().unwrap().0.clone();
    Outcome {
        evs,
        panic,
        aborted: g.aborted,
        sched_hash: g.sched_hash,
        preemptions: g.preemptions,
        steps: g.steps,
        site_hits: g.site_hits.clone(),
        preempted_at: g.preempted_at.clone(),
        trail,
        sent,
        owed,
        second,
    }
}

/// The oracle: only what the statements of C18 / C19 list. Returns (kind, detail) of the first
/// refuting observation.
pub fn judge(scn: &Scenario, o: &Outcome) -> Option<(&'static str, String)> {
    if let Some((loc, msg)) = &o.panic {
        if is_crate_location(loc) {
            return Some(("panic", format!("panicked at {}: {}", loc, msg)));
        } else {
            return Some(("HARNESS", format!("harness panic at {}: {}", loc, msg)));
        }
    }
    let probe: Vec<&REv> = o.evs.iter().filter(|e| e.obs == Obs::Probe && e.enter).collect();
    let greets = probe.iter().filter(|e| e.kind == Kind::Handshake).count();
    let data: Vec<&&REv> = probe.iter().filter(|e| e.kind == Kind::Data).collect();
    let terms: Vec<&&REv> = probe.iter().filter(|e| e.kind.is_terminal()).collect();
    let k = scn.data.len();
    match &scn.shape {
        Shape::CombineOverMerge => {
            if greets != 1 {
                return Some(("sink-not-greeted-exactly-once", format!("sink was greeted {} times", greets)));
            }
            for e in &data {
                if e.val.n != 2 {
                    return Some(("incomplete-tuple", format!("tuple {}", e.val.show())));
                }
                let first_ok = o.sent[0].contains(&e.val.a[0]) || o.sent[1].contains(&e.val.a[0]);
                if !first_ok || !o.sent[2].contains(&e.val.a[1]) {
                    return Some(("tuple-with-value-never-sent", format!("tuple {} holds a value that was never sent to that slot", e.val.show())));
                }
            }
            if terms.len() != 1 {
                return Some((
                    "terminal-not-delivered-exactly-once",
                    format!("all member threads have finished; the sink received {} terminals", terms.len()),
                ));
            }
            let t = terms[0];
            if t.kind != Kind::Terminate {
                return Some(("completion-of-wrong-kind", format!("{:?}", t.kind)));
            }
            if t.inflight != 0 {
                return Some((
                    "completion-during-data-delivery",
                    format!("Terminate entered while {} Data deliveries were still in progress", t.inflight),
                ));
            }
            None
        },
        Shape::Merge | Shape::Combine => {
            if greets != 1 {
                return Some(("sink-not-greeted-exactly-once", format!("sink was greeted {} times", greets)));
            }
            if scn.shape == Shape::Merge {
                // every datum exactly once, each member's own order preserved
                let mut got: Vec<i64> = data.iter().map(|e| e.val.a[0]).collect();
                let mut want: Vec<i64> = o.sent.iter().flatten().copied().collect();
                for m in 0..k {
                    let seq: Vec<i64> = got.iter().copied().filter(|v| v / 100 == m as i64 + 1).collect();
                    let mut sorted = seq.clone();
                    sorted.sort();
                    if seq != sorted {
                        return Some(("member-order-not-preserved", format!("member {} data arrived as {:?}", m, seq)));
                    }
                }
                got.sort();
                want.sort();
                if scn.fail.is_none() {
                    if got != want {
                        return Some(("datum-lost-or-duplicated", format!("sent {:?}, sink received {:?}", want, got)));
                    }
                } else {
                    // a member fails: what the others send once the failure has begun is not owed to
                    // the sink any more (it may be relayed or dropped), everything delivered before
                    // is; nothing is duplicated or invented
                    let mut dup = got.clone();
                    dup.dedup();
                    let invented = got.iter().any(|v| !want.contains(v));
                    let lost: Vec<i64> = o.owed.iter().copied().filter(|v| !got.contains(v)).collect();
                    if dup.len() != got.len() || invented || !lost.is_empty() {
                        return Some((
                            "datum-lost-or-duplicated",
                            format!("sent {:?} (delivered before the failure began: {:?}), sink received {:?}", want, o.owed, got),
                        ));
                    }
                }
            } else {
                for e in &data {
                    if e.val.n as usize != k {
                        return Some(("incomplete-tuple", format!("tuple {}", e.val.show())));
                    }
                    for m in 0..k {
                        if !o.sent[m].contains(&e.val.a[m]) {
                            return Some((
                                "tuple-with-value-never-sent",
                                format!("tuple {} component {} was never sent by member {}", e.val.show(), m, m),
                            ));
                        }
                    }
                }
            }
            if terms.len() != 1 {
                return Some((
                    "terminal-not-delivered-exactly-once",
                    format!("all member threads have finished; the sink received {} terminals", terms.len()),
                ));
            }
            if scn.fail.is_none() {
                let t = terms[0];
                if t.kind != Kind::Terminate {
                    return Some(("completion-of-wrong-kind", format!("{:?}", t.kind)));
                }
                if t.inflight != 0 {
                    return Some((
                        "completion-during-data-delivery",
                        format!("Terminate entered while {} Data deliveries were still in progress", t.inflight),
                    ));
                }
            }
            None
        },
        Shape::TakeDirect(n) | Shape::TakeMerge(n) => {
            if let Some((evs2, ups2)) = &o.second {
                // the second subscription is the only one now: exactly n of the n + 1 data, one
                // completion, its upstream told to stop once
                let d2 = evs2.iter().filter(|e| e.obs == Obs::Probe && e.enter && e.kind == Kind::Data).count();
                let t2 = evs2.iter().filter(|e| e.obs == Obs::Probe && e.enter && e.kind.is_terminal()).count();
                let g2 = evs2.iter().filter(|e| e.obs == Obs::Probe && e.enter && e.kind == Kind::Handshake).count();
                if g2 != 1 || d2 != *n || t2 != 1 || *ups2 != 1 {
                    return Some((
                        "later-subscription-not-independent",
                        format!(
                            "take({}) subscribed again after the raced subscription and fed {} data: greeted {} times, {} data, {} terminals, upstream told to stop {} times",
                            n,
                            n + 1,
                            g2,
                            d2,
                            t2,
                            ups2
                        ),
                    ));
                }
            }
            let total: usize = o.sent.iter().map(|v| v.len()).sum();
            if data.len() > *n {
                return Some(("take-over-delivered", format!("take({}) delivered {} data", n, data.len())));
            }
            let scripted: usize = scn.data.iter().sum();
            let disposed = o.evs.iter().any(|e| e.obs == Obs::ProbeUp && e.enter);
            let up_obs = if matches!(scn.shape, Shape::TakeDirect(_)) { Obs::Member(0) } else { Obs::Mid };
            let ups = o.evs.iter().filter(|e| e.obs == up_obs && e.kind.is_terminal()).count();
            if disposed {
                // the sink left by itself (from inside one of its data handlers, while other threads
                // were delivering): take's upstream is told to stop exactly once - by the relay of
                // that disposal or by take's own completion, whichever comes first, never both -
                // and the sink is sent at most one terminal (a completion that races with the
                // disposal cannot be taken back; two of them would be a double termination)
                if terms.len() > 1 {
                    return Some(("sink-terminated-twice", format!("sink disposed and received {} terminals", terms.len())));
                }
                if ups != 1 {
                    return Some((
                        "upstream-not-terminated-exactly-once",
                        format!("take({}): the sink disposed in its datum #{}; upstream received {} terminals", n, scn.dispose_at.unwrap_or(0), ups),
                    ));
                }
                if let Shape::TakeMerge(_) = scn.shape {
                    for m in 0..k {
                        let c = o.evs.iter().filter(|e| e.obs == Obs::Member(m) && e.kind.is_terminal()).count();
                        if c > 1 {
                            return Some(("member-terminated-twice", format!("member {} received {} terminals", m, c)));
                        }
                    }
                }
                return None;
            }
            if scripted >= *n && data.len() != *n {
                return Some(("take-under-delivered", format!("take({}) delivered {} of {} sent", n, data.len(), total)));
            }
            if terms.len() != 1 {
                return Some(("sink-not-terminated-exactly-once", format!("sink received {} terminals", terms.len())));
            }
            // upstream: take's direct upstream is told to stop exactly once iff take completed by count
            let want = if scripted >= *n { 1 } else { 0 };
            if ups != want {
                return Some((
                    "upstream-not-terminated-exactly-once",
                    format!("take({}) with {} data sent: upstream received {} terminals, expected {}", n, total, ups, want),
                ));
            }
            if let Shape::TakeMerge(_) = scn.shape {
                for m in 0..k {
                    let c = o.evs.iter().filter(|e| e.obs == Obs::Member(m) && e.kind.is_terminal()).count();
                    if c > 1 {
                        return Some(("member-terminated-twice", format!("member {} received {} terminals", m, c)));
                    }
                }
            }
            None
        },
    }
}

pub fn scenarios(prop: &str) -> Vec<Scenario> {
    let mut v = vec![];
    if prop == "C18" {
        for shape in [Shape::Merge, Shape::Combine] {
            for data in [vec![1, 1], vec![2, 1], vec![2, 2], vec![1, 1, 1], vec![2, 1, 1], vec![3, 2], vec![2, 2, 2]] {
                for fail in [None, Some(0), Some(data.len() - 1)] {
                    for own_greet in [false, true] {
                        for probe_pulls in [false, true] {
                            v.push(Scenario { shape: shape.clone(), data: data.clone(), fail, own_greet, probe_pulls, dispose_at: None, resubscribe: false });
                        }
                    }
                }
            }
        }
        // (appended after the original list so that recorded scenario indices stay valid)
        // one slot of combine! fed by two threads through merge!
        for data in [vec![1, 1, 1], vec![2, 1, 1], vec![1, 1, 2], vec![2, 2, 2]] {
            for probe_pulls in [false, true] {
                v.push(Scenario { shape: Shape::CombineOverMerge, data: data.clone(), fail: None, own_greet: false, probe_pulls, dispose_at: None, resubscribe: false });
            }
        }
    } else {
        for n in 1..=3usize {
            for data in [vec![1, 1], vec![2, 1], vec![2, 2], vec![1, 1, 1], vec![2, 2, 1], vec![3, 3]] {
                for probe_pulls in [false, true] {
                    v.push(Scenario { shape: Shape::TakeDirect(n), data: data.clone(), fail: None, own_greet: false, probe_pulls, dispose_at: None, resubscribe: false });
                    v.push(Scenario { shape: Shape::TakeMerge(n), data: data.clone(), fail: None, own_greet: false, probe_pulls, dispose_at: None, resubscribe: false });
                }
            }
        }
        // (appended) the sink leaves by itself, from inside one of its data handlers, before the
        // count is reached, while the other threads keep delivering
        for n in 2..=3usize {
            for k in 1..n {
                for data in [vec![2, 1], vec![2, 2], vec![1, 1, 1], vec![2, 2, 1], vec![3, 3]] {
                    for probe_pulls in [false, true] {
                        v.push(Scenario { shape: Shape::TakeDirect(n), data: data.clone(), fail: None, own_greet: false, probe_pulls, dispose_at: Some(k), resubscribe: false });
                        v.push(Scenario { shape: Shape::TakeMerge(n), data: data.clone(), fail: None, own_greet: false, probe_pulls, dispose_at: Some(k), resubscribe: false });
                    }
                }
            }
        }
        for n in 1..=2usize {
            for data in [vec![2, 2], vec![3, 3], vec![2, 2, 1]] {
                v.push(Scenario { shape: Shape::TakeDirect(n), data: data.clone(), fail: None, own_greet: false, probe_pulls: false, dispose_at: None, resubscribe: true });
            }
        }
    }
    v
}

fn outcome_json(scn: &Scenario, o: &Outcome, strategy: &str) -> J {
    J::obj()
        .set("scenario", J::s(&scn.describe()))
        .set("strategy", J::s(strategy))
        .set("preemptions", J::i(o.preemptions))
        .set("yield_points", J::i(o.steps))
        .set(
            "history",
            J::arr(o.evs.iter().map(|e| {
                J::s(&format!(
                    "t{} {:?} {}{:?}{}",
                    e.thread,
                    e.obs,
                    if e.enter { "enter " } else { "exit " },
                    e.kind,
                    if e.val.n > 0 { format!("({})", e.val.show()) } else { String::new() }
                ))
            })),
        )
        .set("enumeration_trail", J::arr(o.trail.iter().map(|(c, n)| J::s(&format!("{}/{}", c, n)))))
}

fn strategy_for(name: &str, rng: Rng, n_threads: usize) -> Strategy {
    match name {
        "random" => Strategy::Random(rng),
        "sticky" => Strategy::Sticky(rng),
        "pct2" | "pct3" => {
            let mut rng = rng;
            let d = if name == "pct2" { 2 } else { 3 };
            let prio: Vec<u32> = {
                let mut p: Vec<u32> = (0..n_threads as u32).map(|i| 10 + i).collect();
                for i in (1..p.len()).rev() {
                    let j = rng.below(i + 1);
                    p.swap(i, j);
                }
                p
            };
            let change_at: Vec<usize> = (0..d - 1).map(|_| 1 + rng.below(60)).collect();
            Strategy::Pct { rng, prio, change_at }
        },
        _ => Strategy::Free,
    }
}

pub fn run(o: &Opts, rep: &mut Report) {
    install_global_hook();
    let known = load_known(&o.known);
    let scns = scenarios(&o.prop);
    let thorough = o.tier == "thorough";
    let per_scn: u64 = o.cases.unwrap_or(if thorough { 1500 } else { 40 });
    let nthreads = o.threads.max(1);
    let prop = o.prop.clone();
    let seed = o.seed;
    let mut reports: Vec<Report> = vec![];
    std::thread::scope(|s| {
        let mut hs = vec![];
        for w in 0..nthreads {
            let scns = scns.clone();
            let known = known.clone();
            let prop = prop.clone();
            hs.push(s.spawn(move || {
                let mut rep = Report::default();
                for (si, scn) in scns.iter().enumerate() {
                    if si % nthreads != w {
                        continue;
                    }
                    let k = scn.data.len();
                    // seeded strategies
                    for name in ["random", "sticky", "pct2", "pct3"] {
                        for i in 0..per_scn {
                            let rng = Rng::from_parts(&[seed, si as u64, i, name.len() as u64, name.as_bytes()[0] as u64]);
                            let out = run_one(scn, strategy_for(name, rng, k + 1));
                            let id = format!("E4:{}:{}:{}:{}:{}", prop, seed, si, name, i);
                            absorb(&mut rep, &prop, scn, &out, name, &id, &known, i == 0 && w == 0);
                        }
                    }
                    // free-running stress: real parallelism, the hook only injects short random spins
                    let free_runs: u64 = if thorough { 2000 } else { 300 };
                    for i in 0..free_runs {
                        let out = run_one(scn, Strategy::Free);
                        let id = format!("E4f:{}:{}:{}:free:{}", prop, seed, si, i);
                        absorb(&mut rep, &prop, scn, &out, "free-running", &id, &known, false);
                        rep.bump("free-running executions", 1);
                    }
                    // preemption-bounded enumeration (bound 2 in thorough, 1 in quick)
                    let bound = if thorough { 2 } else { 1 };
                    let cap: u64 = if thorough { 60_000 } else { 1_500 };
                    let mut script: Option<Vec<usize>> = Some(vec![]);
                    let mut n = 0u64;
                    let mut complete = false;
                    while let Some(sc) = script.take() {
                        let out = run_one(scn, Strategy::Enumerate { chooser: Chooser::scripted(sc.clone()), bound });
                        let id = format!(
                            "E4e:{}:{}:{}:{}:{}",
                            prop,
                            seed,
                            si,
                            bound,
                            sc.iter().map(|x| x.to_string()).collect::<Vec<_>>().join(".")
                        );
                        absorb(&mut rep, &prop, scn, &out, "enumerate", &id, &known, false);
                        n += 1;
                        if out.aborted {
                            break;
                        }
                        script = next_script(&out.trail);
                        if script.is_none() {
                            complete = true;
                        }
                        if n >= cap {
                            break;
                        }
                    }
                    let key = format!("{} | preemption bound {}", scn.describe(), bound);
                    rep.enumerated.insert(key.clone(), n);
                    if complete {
                        rep.exhaustive_scopes.insert(key);
                    }
                    // thorough: the smallest scenarios also with up to 3 preemptions
                    if thorough && scn.data.iter().sum::<usize>() <= 3 {
                        let mut script: Option<Vec<usize>> = Some(vec![]);
                        let mut n = 0u64;
                        let mut complete = false;
                        while let Some(sc) = script.take() {
                            let out = run_one(scn, Strategy::Enumerate { chooser: Chooser::scripted(sc.clone()), bound: 3 });
                            let id = format!(
                                "E4e:{}:{}:{}:{}:{}",
                                prop,
                                seed,
                                si,
                                3,
                                sc.iter().map(|x| x.to_string()).collect::<Vec<_>>().join(".")
                            );
                            absorb(&mut rep, &prop, scn, &out, "enumerate", &id, &known, false);
                            n += 1;
                            if out.aborted {
                                break;
                            }
                            script = next_script(&out.trail);
                            if script.is_none() {
                                complete = true;
                            }
                            if n >= 150_000 {
                                break;
                            }
                        }
                        let key = format!("{} | preemption bound 3", scn.describe());
                        rep.enumerated.insert(key.clone(), n);
                        if complete {
                            rep.exhaustive_scopes.insert(key);
                        }
                    }
                }
                rep
            }));
        }
        for h in hs {
            match h.join() {
                Ok(r) => reports.push(r),
                Err(_) => {
                    let mut r = Report::default();
                    r.harness_faults.push("worker thread panicked".into());
                    reports.push(r);
                },
            }
        }
    });
    for r in reports {
        rep.merge(r);
    }
    if rep.exercised.get("hook-yield-points").copied().unwrap_or(0) == 0 {
        rep.inconclusive.push("the hooks in the crate never fired (was the crate built without feature `verif`?)".into());
    }
}

#[allow(clippy::too_many_arguments)]
fn absorb(
    rep: &mut Report,
    prop: &str,
    scn: &Scenario,
    out: &Outcome,
    strategy: &str,
    id: &str,
    known: &[crate::report::Known],
    sample: bool,
) {
    rep.evaluations += 1;
    rep.events += out.evs.len() as u64;
    let op = format!("{:?}", scn.shape).split('(').next().unwrap_or("").to_string();
    let e = rep.per_op.entry(op.clone()).or_insert([0; 3]);
    e[0] += 1;
    e[2] += out.evs.len() as u64;
    if out.aborted {
        rep.inconclusive.push(format!("scheduler watchdog fired in {}", id));
        return;
    }
    // non-trivial: at least one preemption (a real interleaving, not a sequential run)
    if out.preemptions > 0 {
        e[1] += 1;
        rep.nontrivial_cases += 1;
        let mut h = out.sched_hash;
        crate::rng::fnv(&mut h, scn.describe().len() as u64);
        for b in scn.describe().bytes() {
            crate::rng::fnv(&mut h, b as u64);
        }
        rep.nontrivial.insert(h);
        rep.schedules.insert(h);
    }
    let hooks: u64 = out.site_hits.iter().filter(|(k, _)| k.contains(".rs:")).map(|x| *x.1).sum();
    rep.bump("hook-yield-points", hooks);
    rep.bump("harness-yield-points", out.steps as u64 - hooks.min(out.steps as u64));
    for (k, v) in &out.site_hits {
        rep.bump(&format!("site {}", k), *v);
    }
    for (k, v) in &out.preempted_at {
        rep.bump(&format!("preempted-at {}", k), *v);
    }
    if sample && rep.samples.len() < 4 {
        rep.samples.push(outcome_json(scn, out, strategy).set("case_id", J::s(id)));
    }
    if let Some((kind, detail)) = judge(scn, out) {
        if kind == "HARNESS" {
            rep.harness_faults.push(detail);
            return;
        }
        let sig = format!("{}/{}", op.to_lowercase(), kind);
        if let Some(k) = known.iter().find(|k| k.signature == sig && k.property == prop) {
            let e = rep.known_hits.entry(sig).or_insert((0, k.text.clone()));
            e.0 += 1;
            return;
        }
        rep.add_violation(prop, &sig, &detail, id, outcome_json(scn, out, strategy));
    }
}

pub fn replay(_o: &Opts, parts: &[&str]) -> i32 {
    install_global_hook();
    // E4:<prop>:<seed>:<scenario>:<strategy>:<i>   or   E4e:<prop>:<seed>:<scenario>:<bound>:<script>
    if parts.len() < 6 {
        eprintln!("malformed case id");
        return 2;
    }
    let prop = parts[1];
    let seed: u64 = parts[2].parse().unwrap_or(1);
    let si: usize = parts[3].parse().unwrap_or(0);
    let scns = scenarios(prop);
    if si >= scns.len() {
        eprintln!("no such scenario");
        return 2;
    }
    let scn = &scns[si];
    let k = scn.data.len();
    let (out, name) = if parts[0] == "E4e" {
        let bound: usize = parts[4].parse().unwrap_or(1);
        let script: Vec<usize> = parts[5].split('.').filter(|s| !s.is_empty()).filter_map(|s| s.parse().ok()).collect();
        (run_one(scn, Strategy::Enumerate { chooser: Chooser::scripted(script), bound }), "enumerate".to_string())
    } else {
        let name = parts[4];
        let i: u64 = parts[5].parse().unwrap_or(0);
        let rng = Rng::from_parts(&[seed, si as u64, i, name.len() as u64, name.as_bytes()[0] as u64]);
        (run_one(scn, strategy_for(name, rng, k + 1)), name.to_string())
    };
    println!("{}", outcome_json(scn, &out, &name).pretty());
    match judge(scn, &out) {
        Some((kind, detail)) => {
            println!("violation: {} {}", kind, detail);
            1
        },
        None => 0,
    }
}

// ---------------------------------------------------------------------------------------------
// Real-executor race (thorough tier): two `interval` sources on async-std's multi-threaded
// executor feeding merge! / combine! / take, the situation the statements of C18 and C19 name.
// Wall-clock tolerant: only the exactly-once clauses are judged.
// ---------------------------------------------------------------------------------------------

pub fn real_executor_race(o: &Opts, rep: &mut Report) {
    use async_executors::AsyncStd;
    use async_nursery::Nursery;
    use std::time::{Duration, Instant};
    type Log = Arc<Mutex<Vec<(char, i64, i32)>>>; // (kind, value, data deliveries in progress)
    fn sink(log: &Log, inflight: &Arc<std::sync::atomic::AtomicI32>) -> Arc<Sink<i64>> {
        let log = Arc::clone(log);
        let inflight = Arc::clone(inflight);
        Arc::new(
            (move |m: Message<i64, Never>| match m {
                Message::Handshake(_) => log.lock().unwrap().push(('H', 0, 0)),
                Message::Data(d) => {
                    let n = inflight.fetch_add(1, Ordering::SeqCst);
                    log.lock().unwrap().push(('D', d, n));
                    std::thread::yield_now();
                    inflight.fetch_sub(1, Ordering::SeqCst);
                },
                Message::Terminate => {
                    let n = inflight.load(Ordering::SeqCst);
                    log.lock().unwrap().push(('T', 0, n));
                },
                Message::Error(_) => log.lock().unwrap().push(('E', 0, 0)),
                Message::Pull => {},
            })
            .into(),
        )
    }
    let rounds = 200;
    let (nursery, nursery_out) = Nursery::new(AsyncStd);
    let mut problems: Vec<String> = vec![];
    let mut total_data = 0usize;
    let mut timeouts = 0usize;
    for r in 0..rounds {
        let k = 3 + (r % 4) as usize;
        let n = 2 + (r % 3) as usize;
        let mk = |i: i64| -> Src<i64> {
            let iv: Src<usize> = Arc::new(callbag::interval(Duration::from_millis(1), nursery.clone()));
            Arc::new(callbag::map(move |x: usize| x as i64 + 1000 * i)(iv))
        };
        let log: Log = Arc::new(Mutex::new(vec![]));
        let inflight = Arc::new(std::sync::atomic::AtomicI32::new(0));
        let out: Src<i64> = if o.prop == "C18" {
            // each member delivers k data and completes, from executor threads
            let a: Src<i64> = Arc::new(callbag::take(k)(mk(1)));
            let b: Src<i64> = Arc::new(callbag::take(k)(mk(2)));
            Arc::new(callbag::merge!(a, b))
        } else {
            let m: Src<i64> = Arc::new(callbag::merge!(mk(1), mk(2)));
            Arc::new(callbag::take(n)(m))
        };
        out(Message::Handshake(sink(&log, &inflight)));
        let t0 = Instant::now();
        loop {
            if log.lock().unwrap().iter().any(|e| e.0 == 'T' || e.0 == 'E') || t0.elapsed() > Duration::from_millis(800) {
                break;
            }
            std::thread::sleep(Duration::from_millis(1));
        }
        std::thread::sleep(Duration::from_millis(4));
        let l = log.lock().unwrap().clone();
        if !l.iter().any(|e| e.0 == 'T' || e.0 == 'E') {
            // no terminal within 800 ms of wall clock: the machine is too loaded to judge this round
            timeouts += 1;
            continue;
        }
        let greets = l.iter().filter(|e| e.0 == 'H').count();
        let data: Vec<i64> = l.iter().filter(|e| e.0 == 'D').map(|e| e.1).collect();
        let terms: Vec<&(char, i64, i32)> = l.iter().filter(|e| e.0 == 'T' || e.0 == 'E').collect();
        total_data += data.len();
        if greets != 1 {
            problems.push(format!("round {}: sink greeted {} times", r, greets));
        }
        if terms.len() != 1 {
            problems.push(format!("round {}: sink received {} terminals ({:?})", r, terms.len(), l));
        }
        if o.prop == "C18" {
            for m in 1..=2i64 {
                let seq: Vec<i64> = data.iter().copied().filter(|v| v / 1000 == m).map(|v| v % 1000).collect();
                let want: Vec<i64> = (0..k as i64).collect();
                if seq != want {
                    problems.push(format!("round {}: member {} data arrived as {:?}, expected {:?}", r, m, seq, want));
                }
            }
            if let Some(t) = terms.first() {
                if t.0 == 'T' && t.2 != 0 {
                    problems.push(format!("round {}: Terminate entered while {} Data deliveries were in progress", r, t.2));
                }
            }
        } else if data.len() != n {
            problems.push(format!("round {}: take({}) delivered {} data", r, n, data.len()));
        }
    }
    // combine!: only complete tuples of values actually sent, one completion after every delivery
    let mut combine_rounds = 0;
    if o.prop == "C18" {
        for r in 0..rounds {
            let k = 3 + (r % 3) as usize;
            let mk = |i: i64| -> Src<i64> {
                let iv: Src<usize> = Arc::new(callbag::interval(Duration::from_millis(1), nursery.clone()));
                let m: Src<i64> = Arc::new(callbag::map(move |x: usize| x as i64 + 1000 * i)(iv));
                Arc::new(callbag::take(k)(m))
            };
            let log: Arc<Mutex<Vec<(char, (i64, i64), i32)>>> = Arc::new(Mutex::new(vec![]));
            let inflight = Arc::new(std::sync::atomic::AtomicI32::new(0));
            let out: Src<(i64, i64)> = Arc::new(callbag::combine!(mk(1), mk(2)));
            let sink: Arc<Sink<(i64, i64)>> = {
                let log = Arc::clone(&log);
                let inflight = Arc::clone(&inflight);
                Arc::new(
                    (move |m: Message<(i64, i64), Never>| match m {
                        Message::Handshake(_) => log.lock().unwrap().push(('H', (0, 0), 0)),
                        Message::Data(d) => {
                            let n = inflight.fetch_add(1, Ordering::SeqCst);
                            log.lock().unwrap().push(('D', d, n));
                            std::thread::yield_now();
                            inflight.fetch_sub(1, Ordering::SeqCst);
                        },
                        Message::Terminate => {
                            let n = inflight.load(Ordering::SeqCst);
                            log.lock().unwrap().push(('T', (0, 0), n));
                        },
                        Message::Error(_) => log.lock().unwrap().push(('E', (0, 0), 0)),
                        Message::Pull => {},
                    })
                    .into(),
                )
            };
            out(Message::Handshake(sink));
            let t0 = Instant::now();
            loop {
                if log.lock().unwrap().iter().any(|e| e.0 == 'T' || e.0 == 'E') || t0.elapsed() > Duration::from_millis(800) {
                    break;
                }
                std::thread::sleep(Duration::from_millis(1));
            }
            std::thread::sleep(Duration::from_millis(4));
            let l = log.lock().unwrap().clone();
            if !l.iter().any(|e| e.0 == 'T' || e.0 == 'E') {
                timeouts += 1;
                continue;
            }
            combine_rounds += 1;
            total_data += l.iter().filter(|e| e.0 == 'D').count();
            if l.iter().filter(|e| e.0 == 'H').count() != 1 {
                problems.push(format!("combine round {}: sink greeted {} times", r, l.iter().filter(|e| e.0 == 'H').count()));
            }
            let terms: Vec<&(char, (i64, i64), i32)> = l.iter().filter(|e| e.0 == 'T' || e.0 == 'E').collect();
            if terms.len() != 1 || terms[0].0 != 'T' || terms[0].2 != 0 {
                problems.push(format!("combine round {}: completion not delivered exactly once after every delivery ({:?})", r, terms));
            }
            for e in l.iter().filter(|e| e.0 == 'D') {
                let (a, b) = e.1;
                if !(1000..1000 + k as i64).contains(&a) || !(2000..2000 + k as i64).contains(&b) {
                    problems.push(format!("combine round {}: tuple {:?} holds a value that was never sent", r, e.1));
                }
            }
        }
    }
    drop(nursery);
    let joined = async_std::task::block_on(async_std::future::timeout(Duration::from_secs(5), nursery_out)).is_ok();
    rep.bump("real-executor combine rounds", combine_rounds as u64);
    rep.evaluations += rounds as u64 + combine_rounds as u64;
    rep.bump("real-executor rounds (two intervals on async-std)", rounds as u64);
    rep.bump("real-executor data deliveries observed", total_data as u64);
    let summary = J::obj()
        .set("executor", J::s("async-std multi-threaded executor, two interval(1 ms) members"))
        .set("rounds", J::i(rounds as i64))
        .set("data_deliveries", J::i(total_data as i64))
        .set("all_ticking_tasks_ended_within_5s", J::Bool(joined))
        .set("rounds_not_judged_because_no_terminal_arrived_within_800ms", J::i(timeouts as i64))
        .set("problems", J::arr(problems.iter().take(5).map(|p| J::s(p))));
    if !problems.is_empty() {
        rep.add_violation(&o.prop, "real-executor/exactly-once-clause-violated", &problems[0], "E4r:real-executor", summary.clone());
    }
    rep.extra.push(("real_executor_race".into(), summary));
}

// ---------------------------------------------------------------------------------------------
// E4t: tight free-running race on take (round 8, `r8C19-b`)
// ---------------------------------------------------------------------------------------------
//
// The controlled scheduler only yields at hooked accesses, and the free-running executions of the
// scenarios above pay a thread spawn per execution. This workload keeps two or three delivering
// threads alive and releases them together, tens of thousands of times, on a fresh
// `take(n)(source)` each round, with nothing between the release and the racing deliveries: it
// reaches windows between accesses that are not hooked at all. The source is a listenable one that
// delivers from several threads at once (what a fan-in of interval members does) and stops
// offering data once it has been told to stop. Oracle per round, on counters kept by the two
// harness ends: data delivered <= n; at most one terminal to the sink and at most one to the
// source; and once every thread is done, exactly one of each (more data were offered than n).

pub fn tight_take_race(o: &Opts, rep: &mut Report) {
    use std::sync::atomic::{AtomicBool, AtomicU64, AtomicUsize, Ordering};
    struct Round {
        sink: Arc<callbag::Sink<usize>>,
        stopped: Arc<AtomicBool>,
        /// deliveries into take in progress / whether two of them were ever in progress at once
        in_flight: AtomicUsize,
        overlapped: AtomicBool,
    }
    let rounds: u64 = o.cases.unwrap_or(if o.tier == "thorough" { 1_000_000 } else { 60_000 });
    let nthr = 3usize;
    let gen = Arc::new(AtomicU64::new(0));
    let done = Arc::new(AtomicUsize::new(0));
    let quit = Arc::new(AtomicBool::new(false));
    let slot: Arc<Mutex<Option<Arc<Round>>>> = Arc::new(Mutex::new(None));
    let mut over = 0u64;
    let mut first: Option<(String, String, u64)> = None;
    let mut raced = 0u64;
    std::thread::scope(|sc| {
        for t in 0..nthr {
            let (gen, done, quit, slot) = (Arc::clone(&gen), Arc::clone(&done), Arc::clone(&quit), Arc::clone(&slot));
            sc.spawn(move || {
                let mut seen = 0u64;
                loop {
                    // wait for the next round
                    let mut spins = 0u32;
                    while gen.load(Ordering::Acquire) == seen {
                        if quit.load(Ordering::Acquire) {
                            return;
                        }
                        spins += 1;
                        if spins > 2_000 {
                            std::thread::yield_now();
                        } else {
                            std::hint::spin_loop();
                        }
                    }
                    seen = gen.load(Ordering::Acquire);
                    let r = slot.lock().unwrap().clone();
                    if let Some(r) = r {
                        for k in 0..2usize {
                            if r.stopped.load(Ordering::Acquire) {
                                break;
                            }
                            if r.in_flight.fetch_add(1, Ordering::AcqRel) > 0 {
                                r.overlapped.store(true, Ordering::Release);
                            }
                            (r.sink)(callbag::Message::Data(t * 10 + k));
                            r.in_flight.fetch_sub(1, Ordering::AcqRel);
                        }
                    }
                    done.fetch_add(1, Ordering::AcqRel);
                }
            });
        }
        for i in 0..rounds {
            let n = 1 + (i % 3) as usize;
            let data = Arc::new(AtomicUsize::new(0));
            let sink_terms = Arc::new(AtomicUsize::new(0));
            let up_terms = Arc::new(AtomicUsize::new(0));
            let stopped = Arc::new(AtomicBool::new(false));
            let up_sink: Arc<Mutex<Option<Arc<callbag::Sink<usize>>>>> = Arc::new(Mutex::new(None));
            let source: callbag::Source<usize> = {
                let (up_terms, stopped, up_sink) = (Arc::clone(&up_terms), Arc::clone(&stopped), Arc::clone(&up_sink));
                (move |m: callbag::Message<never::Never, usize>| {
                    if let callbag::Message::Handshake(sink) = m {
                        *up_sink.lock().unwrap() = Some(Arc::clone(&sink));
                        let (up_terms, stopped) = (Arc::clone(&up_terms), Arc::clone(&stopped));
                        sink(callbag::Message::Handshake(Arc::new(
                            (move |m: callbag::Message<never::Never, usize>| {
                                if let callbag::Message::Terminate | callbag::Message::Error(_) = m {
                                    up_terms.fetch_add(1, Ordering::AcqRel);
                                    stopped.store(true, Ordering::Release);
                                }
                            })
                            .into(),
                        )));
                    }
                })
                .into()
            };
            let out = callbag::take(n)(source);
            {
                let (data, sink_terms) = (Arc::clone(&data), Arc::clone(&sink_terms));
                out(callbag::Message::Handshake(Arc::new(
                    (move |m: callbag::Message<usize, never::Never>| match m {
                        callbag::Message::Data(_) => {
                            data.fetch_add(1, Ordering::AcqRel);
                        },
                        callbag::Message::Terminate | callbag::Message::Error(_) => {
                            sink_terms.fetch_add(1, Ordering::AcqRel);
                        },
                        _ => {},
                    })
                    .into(),
                )));
            }
            let sink = up_sink.lock().unwrap().clone();
            let sink = match sink {
                Some(s) => s,
                None => {
                    rep.harness_faults.push("E4t: take did not subscribe its source".into());
                    break;
                },
            };
            let round = Arc::new(Round { sink, stopped: Arc::clone(&stopped), in_flight: AtomicUsize::new(0), overlapped: AtomicBool::new(false) });
            *slot.lock().unwrap() = Some(Arc::clone(&round));
            done.store(0, Ordering::Release);
            gen.fetch_add(1, Ordering::AcqRel);
            let t0 = std::time::Instant::now();
            let mut stuck = false;
            while done.load(Ordering::Acquire) < nthr {
                std::hint::spin_loop();
                if t0.elapsed().as_secs() > 20 {
                    stuck = true;
                    break;
                }
            }
            if stuck {
                // a watchdog, not a verdict
                rep.inconclusive.push("E4t: a round did not finish within 20 s".into());
                break;
            }
            *slot.lock().unwrap() = None;
            *up_sink.lock().unwrap() = None;
            let (d, st, ut) = (data.load(Ordering::Acquire), sink_terms.load(Ordering::Acquire), up_terms.load(Ordering::Acquire));
            if round.overlapped.load(Ordering::Acquire) {
                raced += 1;
            }
            let bad = if d > n {
                Some(("take-over-delivered", format!("take({}) delivered {} data to its sink ({} threads racing, 2 deliveries each)", n, d, nthr)))
            } else if st != 1 {
                Some(("sink-not-terminated-exactly-once", format!("take({}): {} data delivered, the sink received {} terminals", n, d, st)))
            } else if ut != 1 {
                Some(("upstream-not-terminated-exactly-once", format!("take({}): {} data delivered, upstream received {} terminals", n, d, ut)))
            } else if d != n {
                Some(("take-under-delivered", format!("take({}) completed after {} data although {} were offered", n, d, 2 * nthr)))
            } else {
                None
            };
            if let Some((kind, detail)) = bad {
                over += 1;
                if first.is_none() {
                    first = Some((kind.to_string(), detail, i));
                }
            }
        }
        quit.store(true, Ordering::Release);
        gen.fetch_add(1, Ordering::AcqRel);
    });
    rep.evaluations += rounds;
    rep.bump("tight-race rounds (take, 3 delivering threads)", rounds);
    rep.bump("tight-race rounds in which two deliveries into take were in progress at once", raced);
    if raced == 0 && rounds >= 1_000 {
        // the workload observed no race at all (a single core?): it decided nothing
        rep.inconclusive.push(format!("E4t: deliveries into take never overlapped in {} rounds", rounds));
    }
    if let Some((kind, detail, i)) = first {
        let id = format!("E4t:C19:{}:{}", o.seed, i);
        let replay = J::obj()
            .set("case_id", J::s(&id))
            .set("engine", J::s("E4t: tight free-running race on take (schedule-dependent: re-run the check)"))
            .set("rounds_with_a_violation", J::i(over as i64))
            .set("detail", J::s(&detail));
        for _ in 0..over {
            rep.add_violation("C19", &format!("taketight/{}", kind), &detail, &id, replay.clone());
        }
    }
}
