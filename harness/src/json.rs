//! Minimal JSON value + writer (no external crates available beyond the repo's lock file).

use std::collections::BTreeMap;
use std::fmt::Write;

#[derive(Clone, Debug)]
pub enum J {
    Null,
    Bool(bool),
    Int(i64),
    Num(f64),
    Str(String),
    Arr(Vec<J>),
    Obj(Vec<(String, J)>),
}

impl J {
    pub fn obj() -> J {
        J::Obj(vec![])
    }
    pub fn set(mut self, k: &str, v: J) -> J {
        if let J::Obj(ref mut o) = self {
            if let Some(e) = o.iter_mut().find(|e| e.0 == k) {
                e.1 = v;
            } else {
                o.push((k.to_string(), v));
            }
        }
        self
    }
    pub fn put(&mut self, k: &str, v: J) {
        if let J::Obj(ref mut o) = self {
            if let Some(e) = o.iter_mut().find(|e| e.0 == k) {
                e.1 = v;
            } else {
                o.push((k.to_string(), v));
            }
        }
    }
    pub fn s(x: &str) -> J {
        J::Str(x.to_string())
    }
    pub fn i<T: TryInto<i64>>(x: T) -> J {
        J::Int(x.try_into().ok().unwrap_or(i64::MAX))
    }
    pub fn arr<I: IntoIterator<Item = J>>(it: I) -> J {
        J::Arr(it.into_iter().collect())
    }
    pub fn map_counts(m: &BTreeMap<String, u64>) -> J {
        J::Obj(m.iter().map(|(k, v)| (k.clone(), J::Int(*v as i64))).collect())
    }
    pub fn to_string(&self) -> String {
        let mut s = String::new();
        self.write(&mut s, 0, false);
        s
    }
    pub fn pretty(&self) -> String {
        let mut s = String::new();
        self.write(&mut s, 0, true);
        s
    }
    fn write(&self, out: &mut String, ind: usize, pretty: bool) {
        match self {
            J::Null => out.push_str("null"),
            J::Bool(b) => out.push_str(if *b { "true" } else { "false" }),
            J::Int(i) => {
                let _ = write!(out, "{}", i);
            },
            J::Num(f) => {
                if f.is_finite() {
                    let _ = write!(out, "{:.3}", f);
                } else {
                    out.push_str("null");
                }
            },
            J::Str(s) => write_str(out, s),
            J::Arr(a) => {
                out.push('[');
                let simple = a.iter().all(|x| !matches!(x, J::Arr(_) | J::Obj(_)));
                for (i, x) in a.iter().enumerate() {
                    if i > 0 {
                        out.push(',');
                    }
                    if pretty && !simple {
                        out.push('\n');
                        out.push_str(&" ".repeat(ind + 1));
                    } else if pretty && i > 0 {
                        out.push(' ');
                    }
                    x.write(out, ind + 1, pretty);
                }
                if pretty && !simple && !a.is_empty() {
                    out.push('\n');
                    out.push_str(&" ".repeat(ind));
                }
                out.push(']');
            },
            J::Obj(o) => {
                out.push('{');
                for (i, (k, v)) in o.iter().enumerate() {
                    if i > 0 {
                        out.push(',');
                    }
                    if pretty {
                        out.push('\n');
                        out.push_str(&" ".repeat(ind + 1));
                    }
                    write_str(out, k);
                    out.push(':');
                    if pretty {
                        out.push(' ');
                    }
                    v.write(out, ind + 1, pretty);
                }
                if pretty && !o.is_empty() {
                    out.push('\n');
                    out.push_str(&" ".repeat(ind));
                }
                out.push('}');
            },
        }
    }
}

fn write_str(out: &mut String, s: &str) {
    out.push('"');
    for c in s.chars() {
        match c {
            '"' => out.push_str("\\\""),
            '\\' => out.push_str("\\\\"),
            '\n' => out.push_str("\\n"),
            '\r' => out.push_str("\\r"),
            '\t' => out.push_str("\\t"),
            c if (c as u32) < 0x20 => {
                let _ = write!(out, "\\u{:04x}", c as u32);
            },
            c => out.push(c),
        }
    }
    out.push('"');
}
