//! E3: a mock `Nurse + Timer` with a virtual clock and an explicit task scheduler.

use crate::rng::Rng;
use async_executors::Timer;
use async_nursery::{Nurse, NurseErr};
use futures_core::future::BoxFuture;
use futures_task::FutureObj;
use std::future::Future;
use std::pin::Pin;
use std::sync::{Arc, Mutex};
use std::task::{Context, Poll, RawWaker, RawWakerVTable, Waker};
use std::time::Duration;

pub struct TimerEntry {
    pub deadline: u64,
    pub task: usize,
    pub seq: u64,
}

pub struct VState {
    pub now: u64,
    pub tasks: Vec<Option<FutureObj<'static, ()>>>,
    pub task_done_at: Vec<Option<u64>>,
    pub timers: Vec<TimerEntry>,
    pub timer_seq: u64,
    pub current_task: Option<usize>,
    pub spawn_count: usize,
    /// fault plan: spawn index -> error to return
    pub faults: Vec<Option<u8>>,
    /// virtual time that elapses inside nurse() for spawn index i (models the subscribing thread
    /// being descheduled between spawning the task and greeting the sink)
    pub elapse_inside_nurse: Vec<u64>,
    pub rng: Rng,
    pub polls: u64,
    pub tie_breaks: u64,
    /// sleeps that completed without virtual time advancing, within the current poll
    pub immediate_sleeps: u32,
    /// like a real executor, do not poll a spawned task inside nurse(): its first poll happens
    /// when the driver next lets the executor run (at the same virtual time)
    pub defer_first_poll: bool,
    pub unpolled: Vec<usize>,
    /// number of task polls the driver allows until it says otherwise (None = unlimited): a source
    /// that ticks faster than its period would otherwise turn one advance of a day into millions
    /// of deliveries; counted, never timed
    pub poll_budget: Option<u64>,
}

#[derive(Clone)]
pub struct VExec(pub Arc<Mutex<VState>>);

impl std::fmt::Debug for VExec {
    fn fmt(&self, f: &mut std::fmt::Formatter<'_>) -> std::fmt::Result {
        write!(f, "VExec")
    }
}

fn noop_waker() -> Waker {
    fn clone(_: *const ()) -> RawWaker {
        RawWaker::new(std::ptr::null(), &VTABLE)
    }
    fn noop(_: *const ()) {}
    static VTABLE: RawWakerVTable = RawWakerVTable::new(clone, noop, noop, noop);
    // SAFETY: the vtable functions do nothing and the data pointer is never dereferenced
    unsafe { Waker::from_raw(RawWaker::new(std::ptr::null(), &VTABLE)) }
}

impl VExec {
    pub fn new(rng: Rng) -> VExec {
        VExec(Arc::new(Mutex::new(VState {
            now: 0,
            tasks: vec![],
            task_done_at: vec![],
            timers: vec![],
            timer_seq: 0,
            current_task: None,
            spawn_count: 0,
            faults: vec![],
            elapse_inside_nurse: vec![],
            rng,
            polls: 0,
            tie_breaks: 0,
            immediate_sleeps: 0,
            defer_first_poll: false,
            unpolled: vec![],
            poll_budget: None,
        })))
    }

    fn lock(&self) -> std::sync::MutexGuard<'_, VState> {
        match self.0.lock() {
            Ok(g) => g,
            Err(p) => p.into_inner(),
        }
    }

    pub fn now(&self) -> u64 {
        self.lock().now
    }

    pub fn task_pending(&self, t: usize) -> bool {
        self.lock().tasks.get(t).map(|x| x.is_some()).unwrap_or(false)
    }

    pub fn task_done_at(&self, t: usize) -> Option<u64> {
        self.lock().task_done_at.get(t).copied().flatten()
    }

    /// earliest pending deadline of task t
    pub fn next_deadline(&self, t: usize) -> Option<u64> {
        self.lock().timers.iter().filter(|e| e.task == t).map(|e| e.deadline).min()
    }

    fn poll_task(&self, t: usize) {
        // take the future out so that the lock is not held while it runs (it calls sinks)
        let fut = {
            let mut g = self.lock();
            if let Some(b) = g.poll_budget {
                if b == 0 {
                    drop(g);
                    std::panic::panic_any(crate::seq::HarnessPanic(
                        "VCLOCK: more task polls in one advance than periods can have elapsed (a source ticks faster than its period)".into(),
                    ));
                }
                g.poll_budget = Some(b - 1);
            }
            g.polls += 1;
            g.immediate_sleeps = 0;
            g.current_task = Some(t);
            g.tasks[t].take()
        };
        if let Some(mut fut) = fut {
            let waker = noop_waker();
            let mut cx = Context::from_waker(&waker);
            let r = Pin::new(&mut fut).poll(&mut cx);
            let mut g = self.lock();
            g.current_task = None;
            match r {
                Poll::Ready(()) => {
                    let now = g.now;
                    g.task_done_at[t] = Some(now);
                },
                Poll::Pending => g.tasks[t] = Some(fut),
            }
        } else {
            self.lock().current_task = None;
        }
    }

    /// Let virtual time run up to `t` (inclusive), firing due timers in deadline order; ties are
    /// broken by the PRNG.
    /// first polls that were deferred out of nurse()
    pub fn run_unpolled(&self) {
        loop {
            let t = {
                let mut g = self.lock();
                if g.unpolled.is_empty() {
                    None
                } else {
                    Some(g.unpolled.remove(0))
                }
            };
            match t {
                Some(t) => self.poll_task(t),
                None => break,
            }
        }
    }

    pub fn advance_to(&self, t: u64) {
        self.run_unpolled();
        loop {
            let next = {
                let mut g = self.lock();
                let min = g.timers.iter().map(|e| e.deadline).min();
                match min {
                    Some(d) if d <= t => {
                        let idx: Vec<usize> =
                            (0..g.timers.len()).filter(|i| g.timers[*i].deadline == d).collect();
                        let pick = if idx.len() > 1 {
                            g.tie_breaks += 1;
                            let n = idx.len();
                            idx[g.rng.below(n)]
                        } else {
                            idx[0]
                        };
                        let e = g.timers.remove(pick);
                        if g.now < d {
                            g.now = d;
                        }
                        Some(e.task)
                    },
                    _ => None,
                }
            };
            match next {
                Some(task) => self.poll_task(task),
                None => break,
            }
        }
        let mut g = self.lock();
        if g.now < t {
            g.now = t;
        }
    }
}

struct VSleep {
    exec: VExec,
    deadline: u64,
    registered: bool,
}

impl Future for VSleep {
    type Output = ();
    fn poll(mut self: Pin<&mut Self>, _cx: &mut Context<'_>) -> Poll<()> {
        let mut g = self.exec.lock();
        if g.now >= self.deadline {
            if !self.registered {
                // a sleep that is over before it was ever pending: no virtual time elapsed. One task
                // poll legitimately sees none of these (it wakes from one sleep and starts the next).
                g.immediate_sleeps += 1;
                if g.immediate_sleeps > 64 {
                    drop(g);
                    std::panic::panic_any(crate::seq::HarnessPanic(
                        "VCLOCK: a task completed 64 sleeps in a row without virtual time advancing (zero-length period?)".into(),
                    ));
                }
            }
            return Poll::Ready(());
        }
        if !self.registered {
            if let Some(t) = g.current_task {
                let seq = g.timer_seq;
                g.timer_seq += 1;
                let deadline = self.deadline;
                g.timers.push(TimerEntry { deadline, task: t, seq });
            }
            drop(g);
            self.registered = true;
        }
        Poll::Pending
    }
}

impl Timer for VExec {
    fn sleep(&self, dur: Duration) -> BoxFuture<'static, ()> {
        let now = self.lock().now;
        Box::pin(VSleep { exec: self.clone(), deadline: now + dur.as_micros() as u64, registered: false })
    }
}

impl Nurse<()> for VExec {
    fn nurse_obj(&self, fut: FutureObj<'static, ()>) -> Result<(), NurseErr> {
        let (t, elapse) = {
            let mut g = self.lock();
            let idx = g.spawn_count;
            g.spawn_count += 1;
            match g.faults.get(idx).copied().flatten() {
                Some(0) => return Err(NurseErr::Spawn),
                Some(_) => return Err(NurseErr::Closed),
                None => {},
            }
            g.tasks.push(Some(fut));
            g.task_done_at.push(None);
            (g.tasks.len() - 1, g.elapse_inside_nurse.get(idx).copied().unwrap_or(0))
        };
        let defer = { self.lock().defer_first_poll } && elapse == 0;
        if defer {
            // the first poll (which registers the first timer) happens when the executor next runs,
            // i.e. after nurse() and the greeting have returned, still at this virtual time
            self.lock().unpolled.push(t);
        } else {
            // the executor polls the new task right away (it registers its first timer)
            self.poll_task(t);
        }
        if elapse > 0 {
            let until = self.now() + elapse;
            self.advance_to(until);
        }
        Ok(())
    }
}
